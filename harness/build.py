"""Rebuild dadi's three in-scope compiled extensions from /repo's current working tree.

The kernel sources (integration*.c, tridiag.c, DFE/PDFs.c) are compiled together with the
pre-generated Cython wrappers into a private directory outside /repo and /verif.  Cython
itself is not installed in this sandbox, so the wrappers (*.c generated from the *.pyx shims)
are used as they are: /repo's copy when present, else the copy kept in harness/wrappers/.
"""
import gzip
import hashlib
import os
import shutil
import subprocess
import sys
import sysconfig
import tempfile

REPO = os.environ.get('DADI_VERIF_REPO', '/repo')
HERE = os.path.dirname(os.path.abspath(__file__))

PYX_HASHES = {
    'dadi/integration_c.pyx': '808217bc8b4ec91a4395e397006b52c27070c489c8d75f877890880197229346',
    'dadi/tridiag_cython.pyx': '73e8ccf2caf437109898db27150745a9b8540181c85fc5780bd3d2e98ce6261a',
    'dadi/DFE/PDFs_cython.pyx': '00a8946af8820d5579c64d7c1b5564e48c2d4f2e75000a82761d906ff2e977f5',
}

EXTS = {
    'dadi.integration_c': ('dadi/integration_c.c',
                           ['dadi/integration1D.c', 'dadi/integration2D.c', 'dadi/integration3D.c',
                            'dadi/integration4D.c', 'dadi/integration5D.c',
                            'dadi/integration_shared.c', 'dadi/tridiag.c']),
    'dadi.tridiag_cython': ('dadi/tridiag_cython.c', ['dadi/tridiag.c']),
    'dadi.DFE.PDFs_cython': ('dadi/DFE/PDFs_cython.c', []),
}


class BuildError(Exception):
    pass


def _sha(path):
    with open(path, 'rb') as f:
        return hashlib.sha256(f.read()).hexdigest()


def build(outdir=None):
    """Compile the extensions. Returns (outdir, assumptions)."""
    import numpy
    assumptions = []
    if outdir is None:
        outdir = tempfile.mkdtemp(prefix='dadi-verif-', dir='/var/tmp')
    os.makedirs(outdir, exist_ok=True)
    for pyx, h in PYX_HASHES.items():
        p = os.path.join(REPO, pyx)
        if os.path.exists(p) and _sha(p) != h:
            assumptions.append('%s differs from the recorded hash; Cython is not available offline, '
                               'so the pre-generated wrapper C is used as is' % pyx)
    inc = ['-I' + sysconfig.get_paths()['include'], '-I' + numpy.get_include(),
           '-I' + os.path.join(REPO, 'dadi'), '-I' + os.path.join(REPO, 'dadi', 'DFE')]
    suffix = sysconfig.get_config_var('EXT_SUFFIX')
    procs = []
    for mod, (wrapper, kernels) in EXTS.items():
        wpath = os.path.join(REPO, wrapper)
        if not os.path.exists(wpath):
            gz = os.path.join(HERE, 'wrappers', os.path.basename(wrapper) + '.gz')
            wpath = os.path.join(outdir, os.path.basename(wrapper))
            with gzip.open(gz, 'rb') as fi, open(wpath, 'wb') as fo:
                shutil.copyfileobj(fi, fo)
            assumptions.append('%s absent from the tree; the stored copy of the generated wrapper was used' % wrapper)
        out = os.path.join(outdir, mod.split('.')[-1] + suffix)
        cmd = ['gcc', '-O2', '-fPIC', '-shared', '-w', '-fno-strict-aliasing',
               '-DNPY_NO_DEPRECATED_API=NPY_1_7_API_VERSION'] + inc + \
              [wpath] + [os.path.join(REPO, k) for k in kernels] + ['-o', out, '-lm']
        procs.append((mod, cmd, subprocess.Popen(cmd, stdout=subprocess.PIPE, stderr=subprocess.STDOUT)))
    for mod, cmd, p in procs:
        o, _ = p.communicate()
        if p.returncode != 0:
            raise BuildError('compiling %s failed:\n%s\n%s' % (mod, ' '.join(cmd), o.decode(errors='replace')[-4000:]))
    return outdir, assumptions


if __name__ == '__main__':
    d, a = build(sys.argv[1] if len(sys.argv) > 1 else None)
    print(d)
    for x in a:
        print('assumption:', x)
