"""Fresh-interpreter evaluation server for C20.

Started as `python ops_server.py` by a check worker: a brand-new interpreter that imports dadi and the ops catalogue and has
computed nothing.  For each request line {"history": [op, ...]} it forks
  - one child that executes the whole history in order (what a user's process does), and
  - one child per op that executes only that op (the same call in a fresh interpreter: every module-level cache is as it is
    right after import),
and answers {"seq": [...], "fresh": [...]} with one ops.run() record (or {"error": ...}) per op.
The server itself never executes an op, so it stays pristine.
"""
import json
import os
import sys
import traceback
import warnings

warnings.filterwarnings('ignore')
HERE = os.path.dirname(os.path.abspath(__file__))
sys.path.insert(0, os.path.dirname(HERE))


def _child(ops_list):
    """fork; the child runs the ops in order and writes JSON to a pipe; the parent returns the decoded list"""
    r, w = os.pipe()
    pid = os.fork()
    if pid == 0:
        os.close(r)
        out = []
        import signal
        signal.signal(signal.SIGALRM, signal.SIG_DFL)
        signal.alarm(int(os.environ.get('VERIF_CASE_TIMEOUT', '240')))     # a hung call ends this child; reported as 'timeout'
        try:
            devnull = open(os.devnull, 'w')
            sys.stdout = devnull
            from harness import ops
            for a in ops_list:
                try:
                    out.append(ops.run(a))
                except Exception as e:       # the op itself failed: reported to the check, which decides
                    tb = traceback.extract_tb(sys.exc_info()[2])
                    where = ''
                    for fr in reversed(tb):
                        if '/dadi/' in fr.filename:
                            where = ' at %s:%d' % (fr.filename.split('/dadi/')[-1], fr.lineno)
                            break
                    out.append({'error': '%s: %s%s' % (type(e).__name__, str(e)[:200], where)})
        finally:
            with os.fdopen(w, 'w') as f:
                f.write(json.dumps(out))
            os._exit(0)
    os.close(w)
    with os.fdopen(r) as f:
        txt = f.read()
    _, status = os.waitpid(pid, 0)
    if not txt:
        import signal
        if os.WIFSIGNALED(status) and os.WTERMSIG(status) == signal.SIGALRM:
            return [{'error': 'timeout'}] * len(ops_list)
        return [{'error': 'child died without output'}] * len(ops_list)
    return json.loads(txt)


def main():
    import dadi            # noqa: F401  (imported, nothing computed)
    import dadi.Demes      # noqa: F401
    import dadi.DFE        # noqa: F401
    from harness import ops  # noqa: F401
    out = sys.stdout
    sys.stdout = open(os.devnull, 'w')
    out.write('ready\n')
    out.flush()
    for line in sys.stdin:
        line = line.strip()
        if not line:
            continue
        req = json.loads(line)
        hist = req['history']
        resp = {'seq': _child(hist), 'fresh': [_child([a])[0] for a in hist]}
        out.write(json.dumps(resp) + '\n')
        out.flush()


if __name__ == '__main__':
    main()
