"""Helpers to call dadi's one_pop .. five_pops with generated parameter sets."""
import numpy as np
from dadi import Integration

DRIVERS = {1: Integration.one_pop, 2: Integration.two_pops, 3: Integration.three_pops, 4: Integration.four_pops,
           5: Integration.five_pops}


def as_fn(v):
    return lambda t, v=v: v


def driver_kwargs(nd, nus, ms, gammas, hs, theta0, frozen=None, nomut=None, wrap=None):
    """kwargs for one_pop..five_pops. ms[i][j] = rate into population i+1 from population j+1.
    wrap: None (constants) or a callable value -> parameter (e.g. as_fn, or a time-dependent maker)."""
    w = wrap or (lambda v: v)
    kw = {}
    if nd == 1:
        kw.update(nu=w(nus[0]), gamma=w(gammas[0]), h=w(hs[0]), theta0=w(theta0))
        if frozen and frozen[0]:
            kw['frozen'] = True
        return kw
    for i in range(nd):
        kw['nu%d' % (i + 1)] = w(nus[i])
        kw['gamma%d' % (i + 1)] = w(gammas[i])
        kw['h%d' % (i + 1)] = w(hs[i])
        for j in range(nd):
            if i != j:
                kw['m%d%d' % (i + 1, j + 1)] = w(ms[i][j])
        if frozen is not None:
            kw['frozen%d' % (i + 1)] = bool(frozen[i])
    if nomut is not None and nd == 2:
        kw['nomut1'], kw['nomut2'] = bool(nomut[0]), bool(nomut[1])
    kw['theta0'] = w(theta0)
    return kw


def max_rate(nus, ms, gammas):
    """Upper bound on the quantity the time-step rule divides by (so T below timescale_factor/max_rate is one step)."""
    B = 0.0
    for i in range(len(nus)):
        B = max(B, 0.25 / nus[i], sum(ms[i]) if ms else 0.0, 0.3 * abs(gammas[i]))
    return B


class delj:
    """context manager: set Integration.use_delj_trick, restore afterwards"""
    def __init__(self, on):
        self.on = bool(on)

    def __enter__(self):
        self.old = Integration.use_delj_trick
        Integration.use_delj_trick = self.on

    def __exit__(self, *a):
        Integration.use_delj_trick = self.old


class timescale:
    def __init__(self, factor=None, old=None):
        self.factor, self.oldflag = factor, old

    def __enter__(self):
        self.saved = (Integration.timescale_factor, Integration.use_old_timestep)
        if self.factor is not None:
            Integration.timescale_factor = self.factor
        if self.oldflag is not None:
            Integration.use_old_timestep = self.oldflag

    def __exit__(self, *a):
        Integration.timescale_factor, Integration.use_old_timestep = self.saved
