"""Independent dense reference for one implicit finite-difference step of the diffusion equation along one axis.

Written from the documented scheme (Gutenkunst et al. 2009, supplement): conservative flux form on a non-uniform grid,

    F_{j+1/2} = M_{j+1/2} (delta_j phi_j + (1-delta_j) phi_{j+1}) - (V_{j+1} phi_{j+1} - V_j phi_j) / (2 Delta_j)
    d phi_j / dt = -(F_{j+1/2} - F_{j-1/2}) / w_j          (w = trapezoid weights, zero flux through the ends)

fully implicit in time, with an absorbing term at x=0 (x=1) only on the line where every other population's frequency
is 0 (1) and the advection points outward.  The operator is assembled as a full matrix by applying the flux form to unit
vectors and solved with LU (numpy.linalg.solve).  No dadi imports.
"""
import numpy as np


def Vfunc(x, nu, beta=1.0):
    return x * (1.0 - x) / nu * (beta + 1.0) ** 2 / (4.0 * beta)


def Mfunc(x, others, ms, gamma, h):
    out = gamma * 2.0 * (h + (1.0 - 2.0 * h) * x) * x * (1.0 - x)
    for o, m in zip(others, ms):
        out = out + m * (o - x)
    return out


def trapz_weights(xx):
    xx = np.asarray(xx, float)
    dx = np.diff(xx)
    w = np.zeros(len(xx))
    w[:-1] += dx / 2.0
    w[1:] += dx / 2.0
    return w


def cc_delta(dx, MInt, VInt):
    """Chang-Cooper weights in dadi's orientation: delta = 1 - (1/u - 1/(exp(u)-1)), u = 2 M Delta / V.
    Returns (delta, u). delta=0.5 where u == 0."""
    with np.errstate(all='ignore'):
        u = 2.0 * MInt * dx / VInt
        d = 1.0 - (1.0 / u - 1.0 / np.expm1(u))
    d = np.where(u == 0, 0.5, d)
    # series for small |u|: 1/u - 1/(e^u-1) = 1/2 - u/12 + ...
    small = np.abs(u) < 1e-2
    d = np.where(small, 0.5 + u / 12.0 - u ** 3 / 720.0, d)
    return d, u


def line_operator(xx, nu, gamma, h, others, ms, delj_trick, beta=1.0, absorb_lo=True, absorb_hi=True):
    """Matrix J with d phi/dt = J phi for one line. Returns (J, info)."""
    xx = np.asarray(xx, float)
    L = len(xx)
    dx = np.diff(xx)
    xi = 0.5 * (xx[1:] + xx[:-1])
    V = Vfunc(xx, nu, beta)
    Vi = Vfunc(xi, nu, beta)
    Mi = Mfunc(xi, others, ms, gamma, h)
    if delj_trick:
        delta, u = cc_delta(dx, Mi, Vi)
    else:
        delta, u = np.full(L - 1, 0.5), np.zeros(L - 1)
    w = trapz_weights(xx)
    J = np.zeros((L, L))
    for k in range(L):
        e = np.zeros(L)
        e[k] = 1.0
        F = Mi * (delta * e[:-1] + (1.0 - delta) * e[1:]) - (V[1:] * e[1:] - V[:-1] * e[:-1]) / (2.0 * dx)
        col = np.zeros(L)
        col[:-1] -= F / w[:-1]
        col[1:] += F / w[1:]
        J[:, k] = col
    M0 = float(Mfunc(xx[0], others, ms, gamma, h))
    M1 = float(Mfunc(xx[-1], others, ms, gamma, h))
    out_lo = out_hi = 0.0
    if absorb_lo and M0 <= 0:
        out_lo = (0.5 / nu - M0) / w[0]
        J[0, 0] -= out_lo
    if absorb_hi and M1 >= 0:
        out_hi = (0.5 / nu + M1) / w[-1]
        J[-1, -1] -= out_hi
    return J, dict(u=u, out_lo=out_lo, out_hi=out_hi, w=w)


def step_line(phi_line, dt, J):
    L = len(phi_line)
    A = np.eye(L) / dt - J
    return np.linalg.solve(A, np.asarray(phi_line, float) / dt), A


def thomas_growth(A):
    """Growth factor of Gaussian elimination WITHOUT pivoting (the documented tridiagonal solver) on the tridiagonal matrix A:
    largest entry over smallest pivot. The matrix itself can be perfectly conditioned while a pivot vanishes (strong advection
    with central weights and a long step); the documented algorithm then loses accuracy in proportion to this factor."""
    n = A.shape[0]
    bet = A[0, 0]
    small = abs(bet)
    for i in range(1, n):
        if bet == 0:
            return np.inf
        bet = A[i, i] - A[i, i - 1] * A[i - 1, i] / bet
        small = min(small, abs(bet))
    if small == 0:
        return np.inf
    return float(np.abs(A).max() / small)


def step_axis(phi, grids, axis, nu, ms, gamma, h, dt, delj_trick, beta=1.0, want_cond=False):
    """One implicit step of an n-D density along `axis`. grids: list of per-axis grids; ms: migration rates into this
    population from each other population, in increasing order of the other axes. Returns (new_phi, info)."""
    phi = np.asarray(phi, float)
    nd = phi.ndim
    out = np.empty_like(phi)
    others_axes = [a for a in range(nd) if a != axis]
    maxcond = 0.0
    maxu = 0.0
    minu = np.inf
    outflow = 0.0
    other_shapes = [phi.shape[a] for a in others_axes]
    for oidx in np.ndindex(*other_shapes):
        others = [grids[a][i] for a, i in zip(others_axes, oidx)]
        lo = all(o == 0 for o in others)
        hi = all(o == 1 for o in others)
        J, info = line_operator(grids[axis], nu, gamma, h, others, ms, delj_trick, beta, lo, hi)
        sl = [None] * nd
        for a, i in zip(others_axes, oidx):
            sl[a] = i
        sl[axis] = slice(None)
        sl = tuple(sl)
        new, A = step_line(phi[sl], dt, J)
        out[sl] = new
        if want_cond:
            maxcond = max(maxcond, float(np.linalg.cond(A)))
            maxcond = max(maxcond, thomas_growth(A))
        if delj_trick:
            au = np.abs(info['u'])
            maxu = max(maxu, float(au.max()))
            if (au > 0).any():
                minu = min(minu, float(au[au > 0].min()))
        # mass leaving through the absorbing ends during this step (trapezoid mass units of this line)
        outflow_line = dt * (info['out_lo'] * info['w'][0] * new[0] + info['out_hi'] * info['w'][-1] * new[-1])
        if outflow_line:
            wprod = 1.0
            for a, i in zip(others_axes, oidx):
                wprod *= trapz_weights(grids[a])[i]
            outflow += outflow_line * wprod
    return out, dict(cond=maxcond, maxu=maxu, minu=minu, outflow=outflow)


def inject(phi, grids, dt, theta0, skip=()):
    """New mutations: mass dt*theta0/2 * (1/x_1) enters population k at (x_1 in pop k, 0 elsewhere), for every population
    not in `skip`. Density increment = mass / trapezoid weight of that entry."""
    phi = np.array(phi, float)
    nd = phi.ndim
    for k in range(nd):
        if k in skip:
            continue
        idx = [0] * nd
        idx[k] = 1
        w = 1.0
        for a in range(nd):
            w *= trapz_weights(grids[a])[idx[a]]
        phi[tuple(idx)] += dt * theta0 / 2.0 / grids[k][1] / w
    return phi


def mass(phi, grids):
    out = np.asarray(phi, float)
    for a in range(out.ndim - 1, -1, -1):
        out = np.tensordot(out, trapz_weights(grids[a]), axes=([a], [0]))
    return float(out)
