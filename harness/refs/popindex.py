"""Explicit re-indexing oracles for population bookkeeping on spectra (no dadi imports)."""
import itertools
import math

import numpy as np


def marginalize(data, over):
    keep = [a for a in range(data.ndim) if a not in over]
    out = np.zeros([data.shape[a] for a in keep])
    for idx in np.ndindex(data.shape):
        out[tuple(idx[a] for a in keep)] += data[idx]
    return out


def reorder(data, neworder0):
    """neworder0[k] = original axis placed at position k."""
    out = np.zeros([data.shape[a] for a in neworder0])
    for idx in np.ndindex(data.shape):
        out[tuple(idx[a] for a in neworder0)] = data[idx]
    return out


def combine(data, mask, pops0):
    """Merge populations pops0 (0-based) into the slot of the smallest index; allele counts add.
    Returns (data, mask): a merged entry is masked iff any contributing entry is masked."""
    pops0 = sorted(pops0)
    first, rest = pops0[0], pops0[1:]
    keep = [a for a in range(data.ndim) if a not in rest]
    shape = []
    for a in keep:
        if a == first:
            shape.append(sum(data.shape[p] - 1 for p in pops0) + 1)
        else:
            shape.append(data.shape[a])
    out = np.zeros(shape)
    omask = np.zeros(shape, bool)
    for idx in np.ndindex(data.shape):
        new = tuple(sum(idx[p] for p in pops0) if a == first else idx[a] for a in keep)
        out[new] += data[idx]
        omask[new] |= bool(mask[idx])
    return out, omask


def scramble(data):
    """Pool all chromosomes, then deal them back at random into populations of the original sizes."""
    ns = [s - 1 for s in data.shape]
    N = sum(ns)
    pooled = np.zeros(N + 1)
    for idx in np.ndindex(data.shape):
        pooled[sum(idx)] += data[idx]
    out = np.zeros(data.shape)
    for idx in np.ndindex(data.shape):
        t = sum(idx)
        w = 1
        for n, c in zip(ns, idx):
            w *= math.comb(n, c)
        out[idx] = pooled[t] * w / math.comb(N, t)
    return out
