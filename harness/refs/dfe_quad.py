"""Independent quadrature of cached spectra over a distribution of fitness effects (no dadi imports).

1-D: theta * [ trapz over the cached grid of pdf(g) S(g)  +  S_neutral * P(g < g_min)  +  S(g_max) * P(g > g_max) ]
2-D: interior double trapezoid + 4 edges (one coefficient beyond the grid, the other on it) + 4 corners.
Tail and corner masses come from closed-form cdfs (scipy.stats), not from numerical quadrature of the pdf.
"""
import math

import numpy as np
import scipy.stats as ss


# ---- univariate families: name -> (pdf(x, params), cdf(x, params))
def _uni(name, params):
    if name == 'exponential':
        d = ss.expon(scale=params[0])
    elif name == 'gamma':
        d = ss.gamma(params[0], scale=params[1])
    elif name == 'lognormal':
        d = ss.lognorm(params[1], scale=math.exp(params[0]))
    elif name == 'beta':
        d = ss.beta(params[0], params[1])
    else:
        raise ValueError(name)
    return d


def integrate_1d(gammas_pos, spectra, neutral, name, params, theta, exterior=True):
    """gammas_pos: increasing positive magnitudes g_min..g_max; spectra[k] = spectrum at selection -gammas_pos[k]."""
    d = _uni(name, params)
    g = np.asarray(gammas_pos, float)
    w = d.pdf(g)
    S = np.asarray(spectra, float)
    fs = np.trapz(w[:, None] * S.reshape(len(g), -1), g, axis=0).reshape(S.shape[1:]) if hasattr(np, 'trapz') else None
    if fs is None:
        fs = np.trapezoid(w[:, None] * S.reshape(len(g), -1), g, axis=0).reshape(S.shape[1:])
    total_w = float(np.trapezoid(w, g)) if hasattr(np, 'trapezoid') else float(np.trapz(w, g))
    if exterior:
        w_neu = float(d.cdf(g[0]))
        w_del = float(d.sf(g[-1]))
        fs = fs + np.asarray(neutral, float) * w_neu + S[-1] * w_del
        total_w += w_neu + w_del
    return theta * fs, total_w


def _trapz(y, x, axis=0):
    f = getattr(np, 'trapezoid', None) or np.trapz
    return f(y, x, axis=axis)


class BivLognormal:
    def __init__(self, params):
        if len(params) == 3:
            self.mu1 = self.mu2 = params[0]
            self.s1 = self.s2 = params[1]
            self.rho = params[2]
        else:
            self.mu1, self.mu2, self.s1, self.s2, self.rho = params

    def pdf(self, x, y):
        x = np.asarray(x, float)[:, None]
        y = np.asarray(y, float)[None, :]
        a = (np.log(x) - self.mu1) / self.s1
        b = (np.log(y) - self.mu2) / self.s2
        r = self.rho
        q = (a * a - 2 * r * a * b + b * b) / (1 - r * r)
        return np.exp(-q / 2) / (2 * math.pi * self.s1 * self.s2 * math.sqrt(1 - r * r) * x * y)

    def marg1(self, x):
        return ss.lognorm(self.s1, scale=math.exp(self.mu1)).pdf(x)

    def marg2(self, y):
        return ss.lognorm(self.s2, scale=math.exp(self.mu2)).pdf(y)

    def cond2_cdf(self, y, x):
        """P(Y < y | X = x)"""
        m = self.mu2 + self.rho * self.s2 * (np.log(x) - self.mu1) / self.s1
        s = self.s2 * math.sqrt(1 - self.rho ** 2)
        return ss.norm.cdf((math.log(y) - m) / s)

    def cond1_cdf(self, x, y):
        m = self.mu1 + self.rho * self.s1 * (np.log(y) - self.mu2) / self.s2
        s = self.s1 * math.sqrt(1 - self.rho ** 2)
        return ss.norm.cdf((math.log(x) - m) / s)

    def joint_cdf(self, x, y):
        cov = [[1.0, self.rho], [self.rho, 1.0]]
        return float(ss.multivariate_normal(mean=[0, 0], cov=cov).cdf([(math.log(x) - self.mu1) / self.s1, (math.log(y) - self.mu2) / self.s2]))

    def cdf1(self, x):
        return float(ss.norm.cdf((math.log(x) - self.mu1) / self.s1))

    def cdf2(self, y):
        return float(ss.norm.cdf((math.log(y) - self.mu2) / self.s2))


class BivIndGamma:
    def __init__(self, params):
        if len(params) in (2, 3):
            a1 = a2 = params[0]
            b1 = b2 = params[1]
        else:
            a1, a2, b1, b2 = params[:4]
        self.d1, self.d2 = ss.gamma(a1, scale=b1), ss.gamma(a2, scale=b2)

    def pdf(self, x, y):
        return np.outer(self.d1.pdf(x), self.d2.pdf(y))

    def marg1(self, x):
        return self.d1.pdf(x)

    def marg2(self, y):
        return self.d2.pdf(y)

    def cond2_cdf(self, y, x):
        return self.d2.cdf(y) * np.ones_like(np.asarray(x, float))

    def cond1_cdf(self, x, y):
        return self.d1.cdf(x) * np.ones_like(np.asarray(y, float))

    def joint_cdf(self, x, y):
        return float(self.d1.cdf(x) * self.d2.cdf(y))

    def cdf1(self, x):
        return float(self.d1.cdf(x))

    def cdf2(self, y):
        return float(self.d2.cdf(y))


def integrate_2d(gammas_pos, spectra, dist, theta, exterior=True, both_lethal=True):
    """spectra[i, j] = spectrum at (-g_i, -g_j), g increasing g_min..g_max. Returns (theta*fs, total weight, weight of both-lethal corner)."""
    g = np.asarray(gammas_pos, float)
    S = np.asarray(spectra, float)
    n = len(g)
    shp = S.shape[2:]
    S2 = S.reshape(n, n, -1)
    W = dist.pdf(g, g)
    inner = _trapz(_trapz(W[:, :, None] * S2, g, axis=0), g, axis=0)
    total = float(_trapz(_trapz(W, g, axis=0), g, axis=0))
    wbl = 0.0
    if exterior:
        gmin, gmax = g[0], g[-1]
        m1, m2 = dist.marg1(g), dist.marg2(g)
        # edges: coefficient 2 beyond the grid, coefficient 1 on the grid (index i), and vice versa
        w2_neu = m1 * dist.cond2_cdf(gmin, g)
        w2_del = m1 * (1 - dist.cond2_cdf(gmax, g))
        w1_neu = m2 * dist.cond1_cdf(gmin, g)
        w1_del = m2 * (1 - dist.cond1_cdf(gmax, g))
        inner = inner + _trapz(S2[:, 0] * w2_neu[:, None], g, axis=0) + _trapz(S2[:, -1] * w2_del[:, None], g, axis=0) \
            + _trapz(S2[0, :] * w1_neu[:, None], g, axis=0) + _trapz(S2[-1, :] * w1_del[:, None], g, axis=0)
        total += float(_trapz(w2_neu, g) + _trapz(w2_del, g) + _trapz(w1_neu, g) + _trapz(w1_del, g))
        # corners
        c_nn = dist.joint_cdf(gmin, gmin)
        c_n1_d2 = dist.cdf1(gmin) - dist.joint_cdf(gmin, gmax)          # 1 neutral, 2 lethal
        c_d1_n2 = dist.cdf2(gmin) - dist.joint_cdf(gmax, gmin)          # 1 lethal, 2 neutral
        c_dd = 1 - dist.cdf1(gmax) - dist.cdf2(gmax) + dist.joint_cdf(gmax, gmax)
        inner = inner + S2[0, 0] * c_nn + S2[0, -1] * c_n1_d2 + S2[-1, 0] * c_d1_n2
        total += c_nn + c_n1_d2 + c_d1_n2
        wbl = c_dd
        if both_lethal:
            inner = inner + S2[-1, -1] * c_dd
            total += c_dd
    return theta * inner.reshape(shp), total, wbl


def quad_budget_2d(gammas_pos, dist, pdf_func, params):
    """Quadrature error of the documented procedure for the out-of-range masses, in units of total weight. The edge and corner
    masses are obtained by adaptive quadrature of the pdf with requested tolerances (epsabs=1e-4, epsrel=1e-3) on semi-infinite
    ranges, and what scipy achieves there can be far from what was requested (measured: 14% on a heavy-tailed corner). The same
    quadratures (same integrand pdf_func(x, y, params), limits and tolerances) are carried out here and compared with the exact
    cdf masses. A wrong limit, a missing term, a wrong weight or spectrum is not part of this budget."""
    import scipy.integrate
    g = np.asarray(gammas_pos, float)
    params = np.asarray(params, float)
    gmin, gmax = g[0], g[-1]
    m1, m2 = dist.marg1(g), dist.marg2(g)
    exact = dict(w2_neu=m1 * dist.cond2_cdf(gmin, g), w2_del=m1 * (1 - dist.cond2_cdf(gmax, g)),
                 w1_neu=m2 * dist.cond1_cdf(gmin, g), w1_del=m2 * (1 - dist.cond1_cdf(gmax, g)))
    err = {k: np.zeros(len(g)) for k in exact}
    kw = dict(epsabs=1e-4, epsrel=1e-3)
    with np.errstate(all='ignore'):
        for i, gi in enumerate(g):
            f2 = lambda y: pdf_func(gi, y, params)
            err['w2_neu'][i] = abs(scipy.integrate.quad(f2, 0, gmin, **kw)[0] - exact['w2_neu'][i])
            err['w2_del'][i] = abs(scipy.integrate.quad(f2, gmax, np.inf, **kw)[0] - exact['w2_del'][i])
            err['w1_neu'][i] = abs(scipy.integrate.quad(pdf_func, 0, gmin, args=(gi, params), **kw)[0] - exact['w1_neu'][i])
            err['w1_del'][i] = abs(scipy.integrate.quad(pdf_func, gmax, np.inf, args=(gi, params), **kw)[0] - exact['w1_del'][i])
        edges = float(sum(_trapz(e, g) for e in err.values()))
        lims = [((0, gmin, 0, gmin), dist.joint_cdf(gmin, gmin)),
                ((0, gmin, gmax, np.inf), dist.cdf1(gmin) - dist.joint_cdf(gmin, gmax)),
                ((gmax, np.inf, 0, gmin), dist.cdf2(gmin) - dist.joint_cdf(gmax, gmin)),
                ((gmax, np.inf, gmax, np.inf), 1 - dist.cdf1(gmax) - dist.cdf2(gmax) + dist.joint_cdf(gmax, gmax))]
        corners = 0.0
        for (a, b, c, d), ex in lims:
            # dblquad(f, a, b, gfun, hfun): the outer variable (second argument of f = gamma2) runs over [a, b], the inner one
            # (first argument = gamma1) over [gfun, hfun] - the orientation Cache2D.integrate uses for every corner
            w = scipy.integrate.dblquad(pdf_func, c, d, lambda _: a, lambda _: b, args=[params], **kw)[0]
            corners += abs(w - ex)
    return edges + corners
