"""Drift-selection-mutation equilibrium density of one population (closed form, evaluated with mpmath; no dadi imports).

Stationary solution of  d/dt phi = (1/2) d^2/dx^2 [V phi] - d/dx [M phi]  with mutation influx theta0/2 at x -> 0, where
V = x(1-x)/nu_eff, M = 2 gamma (h + (1-2h) x) x (1-x), nu_eff = nu * 4 beta/(beta+1)^2:

    phi(x) = theta0 * nu_eff / (x (1-x)) * exp(Q(x)) * I(x, 1) / I(0, 1),   I(a,b) = int_a^b exp(-Q),
    Q(x) = 4 g h x + 2 g (1-2h) x^2,  g = gamma * nu_eff.
"""
import mpmath as mp

mp.mp.dps = 40


def _quad(f, points):
    """mp.quad with a fallback: mpmath's tanh-sinh error estimator can divide by zero on some integrands"""
    try:
        return mp.quad(f, points)
    except ZeroDivisionError:
        return mp.quad(f, points, method='gauss-legendre')


def phi(x, gamma, h, nu=1.0, theta0=1.0, beta=1.0):
    nu_eff = mp.mpf(nu) * 4 * mp.mpf(beta) / (mp.mpf(beta) + 1) ** 2
    g = mp.mpf(gamma) * nu_eff
    h = mp.mpf(h)
    x = mp.mpf(x)

    def Q(y):
        return 4 * g * h * y + 2 * g * (1 - 2 * h) * y * y
    if g == 0:
        return mp.mpf(theta0) * nu_eff / x
    # shift exponents by Q(x) so that neither integral over/underflows
    Qx = Q(x)
    # the integrand exp(-(Q(y)-c)) can be sharply peaked at an end point for large |g|: split the interval near both ends
    def pts(a, b):
        w = min(mp.mpf(1), 50 / (abs(g) + 1))
        cand = [a, a + (b - a) * w / 4, a + (b - a) * w, b - (b - a) * w, b - (b - a) * w / 4, b]
        out = []
        for c in cand:
            if not out or c > out[-1]:
                out.append(c)
        return out
    # numerator  exp(Q(x)) * int_x^1 exp(-Q(y)) dy = int_x^1 exp(-(Q(y)-Q(x))) dy
    num = _quad(lambda y: mp.exp(-(Q(y) - Qx)), pts(x, mp.mpf(1)))
    # denominator int_0^1 exp(-Q(y)) dy, kept with its own shift c0 = min over [0,1] of Q (so the integrand is <= 1)
    cands = [mp.mpf(0), mp.mpf(1)]
    if h != mp.mpf(1) / 2:
        ystar = -h / (1 - 2 * h)
        if 0 < ystar < 1:
            cands.append(ystar)
    c0 = min(Q(c) for c in cands)
    den = _quad(lambda y: mp.exp(-(Q(y) - c0)), pts(mp.mpf(0), mp.mpf(1)))
    # phi = theta nu_eff/(x(1-x)) * num / (den * exp(-c0))   with num already carrying exp(Q(x))... careful with the shifts:
    # true numerator  N = exp(Q(x)) int_x^1 exp(-Q) = num
    # true denominator D = int_0^1 exp(-Q) = den * exp(-c0)
    logratio = mp.log(num) - (mp.log(den) - c0)
    return mp.mpf(theta0) * nu_eff / (x * (1 - x)) * mp.exp(logratio)


def sfs_entry(n, i, gamma, h, nu=1.0, theta0=1.0, beta=1.0):
    """expected count of sites with i of n derived alleles: int_0^1 C(n,i) x^i (1-x)^(n-i) phi(x) dx"""
    c = mp.binomial(n, i)
    f = lambda x: c * x ** i * (1 - x) ** (n - i) * phi(x, gamma, h, nu, theta0, beta)
    return mp.quad(f, [0, mp.mpf(1) / (4 * n), mp.mpf(1) / 4, mp.mpf(1) / 2, mp.mpf(3) / 4, 1])


def phi_genic(x, gamma, nu=1.0, theta0=1.0, beta=1.0):
    """h = 1/2 (Kimura): phi = theta0 nu_eff/(x(1-x)) * (1-exp(-2g(1-x)))/(1-exp(-2g)), g = gamma*nu_eff; evaluated with mp.expm1."""
    nu_eff = mp.mpf(nu) * 4 * mp.mpf(beta) / (mp.mpf(beta) + 1) ** 2
    g = mp.mpf(gamma) * nu_eff
    x = mp.mpf(x)
    if g == 0:
        return mp.mpf(theta0) * nu_eff / x
    return mp.mpf(theta0) * nu_eff / (x * (1 - x)) * mp.expm1(-2 * g * (1 - x)) / mp.expm1(-2 * g)
