"""Reference construction of an admixed population's frequency axis (explicit loops, bisect; no dadi imports).

Each source cell (x_1..x_P) with density phi deposits onto the two grid points of the new axis that bracket the mixture
frequency z = sum_k f_k x_k, with density values in proportion to proximity (linear interpolation), scaled so that the trapezoid
integral over the new axis returns phi.
"""
import bisect

import numpy as np


def trapz_weights(xx):
    xx = np.asarray(xx, float)
    dx = np.diff(xx)
    w = np.zeros(len(xx))
    w[:-1] += dx / 2.0
    w[1:] += dx / 2.0
    return w


def add_population(phi, grids, fs, newgrid):
    """phi: P-dim array; fs: P mixture proportions (sum to 1); returns (P+1)-dim array with the new population last."""
    phi = np.asarray(phi, float)
    newgrid = np.asarray(newgrid, float)
    w = trapz_weights(newgrid)
    L = len(newgrid)
    out = np.zeros(phi.shape + (L,))
    for idx in np.ndindex(phi.shape):
        z = 0.0
        for k, i in enumerate(idx):
            z += fs[k] * grids[k][i]
        z = min(max(z, 0.0), 1.0)
        hi = bisect.bisect_left(newgrid.tolist(), z)
        hi = min(max(hi, 1), L - 1)
        lo = hi - 1
        span = newgrid[hi] - newgrid[lo]
        a_hi = (z - newgrid[lo]) / span
        a_lo = 1.0 - a_hi
        # density values proportional to (a_lo, a_hi) at (lo, hi), scaled so the trapezoid integral over the new axis is phi
        c = phi[idx] / (a_lo * w[lo] + a_hi * w[hi])
        out[idx + (lo,)] += a_lo * c
        out[idx + (hi,)] += a_hi * c
    return out


def pulse(phi, grids, dest, fs_full):
    """Replace population `dest` by a mixture with proportions fs_full (over all P populations, dest's own share included):
    build the mixture as a temporary new population, integrate the old `dest` out, put the new axis in its place."""
    P = phi.ndim
    tmp = add_population(phi, grids, fs_full, grids[dest])
    w = trapz_weights(grids[dest])
    red = np.tensordot(tmp, w, axes=([dest], [0]))     # axes: all but dest, then new axis last
    return np.moveaxis(red, -1, dest)


def marginal(phi, grid, axis):
    return np.tensordot(np.asarray(phi, float), trapz_weights(grid), axes=([axis], [0]))
