"""Reference sampling operators from a density on a grid to a frequency spectrum (no dadi imports).

W_hat[i,a]   = integral of Binomial(n,i;x) against the hat (piecewise-linear nodal) basis function of grid point a,
               by Gauss-Legendre quadrature per interval with enough nodes to be exact for the polynomial integrand.
W_trap[i,a]  = trapezoid weight of grid point a times Binomial(n,i;x_a)        (the 'direct' path)
"""
import math

import numpy as np
from numpy.polynomial.legendre import leggauss


def binom_pmf(n, x):
    """array (n+1, len(x)) of C(n,i) x^i (1-x)^(n-i)."""
    x = np.asarray(x, float)
    out = np.empty((n + 1, x.size))
    for i in range(n + 1):
        out[i] = math.comb(n, i) * x ** i * (1.0 - x) ** (n - i)
    return out


def trapz_weights(xx):
    xx = np.asarray(xx, float)
    dx = np.diff(xx)
    w = np.zeros(len(xx))
    w[:-1] += dx / 2.0
    w[1:] += dx / 2.0
    return w


def W_hat(n, xx):
    xx = np.clip(np.asarray(xx, float), 0.0, 1.0)
    L = len(xx)
    k = (n + 3) // 2 + 1
    t, wt = leggauss(k)
    W = np.zeros((n + 1, L))
    for a in range(L - 1):
        lo, hi = xx[a], xx[a + 1]
        h = hi - lo
        if h <= 0:
            continue
        x = lo + (t + 1.0) * h / 2.0
        w = wt * h / 2.0
        B = binom_pmf(n, x)
        right = (x - lo) / h
        left = 1.0 - right
        W[:, a] += B @ (w * left)
        W[:, a + 1] += B @ (w * right)
    return W


def W_trap(n, xx, het=False):
    xx = np.asarray(xx, float)
    B = binom_pmf(n, xx)
    if het:
        B = B * (xx * (1.0 - xx))
    return B * trapz_weights(xx)[None, :]


def contract(phi, Ws):
    """spectrum[i1..iP] = sum_{a1..aP} phi[a1..aP] prod_k Ws[k][i_k, a_k]"""
    out = np.asarray(phi, float)
    for k, W in enumerate(Ws):
        out = np.moveaxis(np.tensordot(W, out, axes=([1], [k])), 0, k)
    return out


def admix_spectrum(phi, ns, grids, props):
    """direct sampling with admixture proportions: population p's sample is drawn at frequency sum_q props[p][q] x_q."""
    P = phi.ndim
    ws = [trapz_weights(g) for g in grids]
    mesh = np.meshgrid(*grids, indexing='ij')
    wmesh = np.ones(phi.shape)
    for k in range(P):
        sl = [None] * P
        sl[k] = slice(None)
        wmesh = wmesh * ws[k][tuple(sl)]
    fac = []
    for p in range(P):
        f = sum(props[p][q] * mesh[q] for q in range(P))
        fac.append([math.comb(ns[p], i) * f ** i * (1.0 - f) ** (ns[p] - i) for i in range(ns[p] + 1)])
    out = np.zeros([n + 1 for n in ns])
    base = phi * wmesh
    for idx in np.ndindex(*out.shape):
        v = base
        for p in range(P):
            v = v * fac[p][idx[p]]
        out[idx] = v.sum()
    return out


def betabinom_pmf(ploidy, alpha, beta):
    """pmf over 0..ploidy of a beta-binomial with the given alpha, beta (via log-gamma)."""
    lg = math.lgamma
    out = np.zeros(ploidy + 1)
    for k in range(ploidy + 1):
        out[k] = math.exp(lg(ploidy + 1) - lg(k + 1) - lg(ploidy - k + 1) + lg(k + alpha) + lg(ploidy - k + beta) - lg(ploidy + alpha + beta)
                          - (lg(alpha) + lg(beta) - lg(alpha + beta)))
    return out


def inbreeding_pmf(n, ploidy, x, F):
    """P(i derived among n chromosomes = n/ploidy individuals) at population frequency x with inbreeding F: each individual is an
    independent beta-binomial(ploidy, x(1-F)/F, (1-x)(1-F)/F); convolution over individuals."""
    nind = n // ploidy
    if x <= 0.0:
        out = np.zeros(n + 1)
        out[0] = 1.0
        return out
    if x >= 1.0:
        out = np.zeros(n + 1)
        out[-1] = 1.0
        return out
    r = (1.0 - F) / F
    one = betabinom_pmf(ploidy, x * r, (1.0 - x) * r)
    out = np.array([1.0])
    for _ in range(nind):
        out = np.convolve(out, one)
    return out


def W_inbreeding(n, ploidy, xx, F, het=False):
    xx = np.asarray(xx, float)
    B = np.stack([inbreeding_pmf(n, ploidy, float(x), F) for x in xx], axis=1)
    if het:
        B = B * (xx * (1.0 - xx))
    return B * trapz_weights(xx)[None, :]
