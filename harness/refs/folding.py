"""Reference folding / unfolding / mirroring by explicit index loops (no dadi imports)."""
import numpy as np


def mirror(data):
    out = np.empty_like(data)
    ns = [s - 1 for s in data.shape]
    for idx in np.ndindex(data.shape):
        out[tuple(n - i for n, i in zip(ns, idx))] = data[idx]
    return out


def fold(data, mask):
    """Every entry with more than half the chromosomes derived moves to its allele-swapped mirror; ties are shared
    equally between an entry and its mirror; masks are the union of entry and mirror, plus the folded-out region."""
    ns = [s - 1 for s in data.shape]
    N = sum(ns)
    out = np.zeros(data.shape)
    omask = np.zeros(data.shape, bool)
    for idx in np.ndindex(data.shape):
        t = sum(idx)
        mir = tuple(n - i for n, i in zip(ns, idx))
        if 2 * t > N:
            out[idx] = 0.0
            omask[idx] = True
        elif 2 * t < N:
            out[idx] = data[idx] + data[mir]
            omask[idx] = mask[idx] or mask[mir]
        else:
            out[idx] = 0.5 * data[idx] + 0.5 * data[mir]
            omask[idx] = mask[idx] or mask[mir]
    return out, omask


def unfold(fdata, fmask):
    """Each allele equally likely ancestral: entry and mirror each get half of their (folded) sum. An entry is masked iff the
    folded entry it came from (itself or its mirror, whichever lies in the minor-allele half) was masked."""
    ns = [s - 1 for s in fdata.shape]
    N = sum(ns)
    out = np.zeros(fdata.shape)
    omask = np.zeros(fdata.shape, bool)
    for idx in np.ndindex(fdata.shape):
        t = sum(idx)
        mir = tuple(n - i for n, i in zip(ns, idx))
        src = idx if 2 * t <= N else mir
        if 2 * t == N:
            out[idx] = (fdata[idx] + fdata[mir]) / 2.0
            omask[idx] = fmask[idx] or fmask[mir]
        else:
            out[idx] = fdata[src] / 2.0
            omask[idx] = fmask[src]
    return out, omask
