"""Brute-force references for the low-pass calling model (no dadi imports)."""
import itertools
import math

import numpy as np


def configs(n_ind, allele_count, ploidy=2):
    """all sorted genotype configurations (tuples of per-individual allele counts) with the given total."""
    return [c for c in itertools.combinations_with_replacement(range(ploidy + 1), n_ind) if sum(c) == allele_count]


def config_weight(c):
    """number of ways to realise configuration c from distinguishable individuals and haplotypes: multinomial x 2^hets"""
    n = len(c)
    n0, n1, n2 = c.count(0), c.count(1), c.count(2)
    return math.factorial(n) // (math.factorial(n0) * math.factorial(n1) * math.factorial(n2)) * 2 ** n1


def config_probs(n_ind, allele_count):
    cs = configs(n_ind, allele_count)
    w = np.array([config_weight(c) for c in cs], float)
    return cs, w / w.sum()


def betabinom2(alpha, beta):
    lg = math.lgamma
    out = []
    for k in range(3):
        out.append(math.exp(lg(3) - lg(k + 1) - lg(3 - k) + lg(k + alpha) + lg(2 - k + beta) - lg(2 + alpha + beta)
                            - (lg(alpha) + lg(beta) - lg(alpha + beta))))
    return out


def config_probs_inbred(n_ind, allele_count, F):
    cs = configs(n_ind, allele_count)
    if allele_count == 0 or allele_count == 2 * n_ind:
        return cs, np.ones(len(cs)) / len(cs)
    p = allele_count / (2.0 * n_ind)
    r = (1.0 - F) / F
    p0, p1, p2 = betabinom2(p * r, (1 - p) * r)
    w = []
    for c in cs:
        n0, n1, n2 = c.count(0), c.count(1), c.count(2)
        w.append(math.factorial(n_ind) / (math.factorial(n0) * math.factorial(n1) * math.factorial(n2)) * p0 ** n0 * p1 ** n1 * p2 ** n2)
    w = np.array(w)
    return cs, w / w.sum()


def het_error_prob(cov):
    """P(a heterozygote with >=1 read shows only one allele), cov = pmf over depths 0..D"""
    cov = np.asarray(cov, float)
    d = np.arange(len(cov))
    c = cov[1:] / cov[1:].sum()
    return float(np.sum(c * 2.0 * 0.5 ** d[1:]))


def calling_error_matrix(cov, nsub, probs_fn):
    q = het_error_prob(cov)
    T = np.zeros((nsub + 1, nsub + 1))
    one = np.array([q / 2, 1 - q, q / 2])          # shift -1, 0, +1
    for af in range(nsub + 1):
        cs, ps = probs_fn(nsub // 2, af)
        for c, p in zip(cs, ps):
            h = c.count(1)
            dist = np.array([1.0])
            for _ in range(h):
                dist = np.convolve(dist, one)
            for k, v in enumerate(dist):
                T[af, af + k - h] += p * v
    return T


def no_call_prob(cov, nseq, probs_fn):
    """P(fewer than 2 alternative reads in total) for each true allele count."""
    cov = np.asarray(cov, float)
    d = np.arange(len(cov))
    # per-individual distribution of alt reads truncated to {0,1,>=2}
    hom = np.array([cov[0], cov[1] if len(cov) > 1 else 0.0, 0.0])
    hom[2] = 1 - hom[0] - hom[1]
    het0 = float(np.sum(cov * 0.5 ** d))
    het1 = float(np.sum(cov * d * 0.5 ** d))
    het = np.array([het0, het1, 1 - het0 - het1])
    out = np.zeros(nseq + 1)
    for af in range(nseq + 1):
        cs, ps = probs_fn(nseq // 2, af)
        tot = 0.0
        for c, p in zip(cs, ps):
            dist = np.array([1.0, 0.0, 0.0])
            for g in c:
                if g == 0:
                    continue
                a = hom if g == 2 else het
                new = np.zeros(3)
                new[0] = dist[0] * a[0]
                new[1] = dist[0] * a[1] + dist[1] * a[0]
                new[2] = 1.0  # not needed
                dist = np.array([new[0], new[1], 0.0])
            tot += p * (dist[0] + dist[1])
        out[af] = tot
    return out


def enough_covered(cov, nseq, nsub):
    """P(at least nsub/2 - 1 of the other nseq/2 - 1 individuals have >= 1 read)"""
    cov = np.asarray(cov, float)
    n = nseq // 2 - 1
    p = cov[1:].sum()
    q = cov[0]
    need = int(math.ceil(nsub / 2)) - 1
    return sum(math.comb(n, k) * p ** k * q ** (n - k) for k in range(max(need, 0), n + 1))


def individual_projection(n_ind, k_ind, probs_fn):
    """P[af, j]: allele count j among k_ind individuals drawn without replacement, given allele count af among n_ind."""
    P = np.zeros((2 * n_ind + 1, 2 * k_ind + 1))
    for af in range(2 * n_ind + 1):
        cs, ps = probs_fn(n_ind, af)
        for c, p in zip(cs, ps):
            subs = list(itertools.combinations(c, k_ind))
            for s in subs:
                P[af, sum(s)] += p / len(subs)
    return P
