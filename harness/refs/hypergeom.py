"""Exact hypergeometric projection weights (fractions / math.comb), no dadi imports."""
import math
from fractions import Fraction

import numpy as np


def weight(n, m, i, j):
    """P(j derived among m chromosomes drawn without replacement from n of which i are derived)."""
    if j < 0 or j > m or i - j < 0 or i - j > n - m:
        return Fraction(0)
    return Fraction(math.comb(m, j) * math.comb(n - m, i - j), math.comb(n, i))


def weights(n, m, i):
    return [weight(n, m, i, j) for j in range(m + 1)]


_mat_cache = {}


def matrix(n, m):
    """P[j, i] as floats (correctly rounded from exact rationals)."""
    key = (n, m)
    if key not in _mat_cache:
        P = np.zeros((m + 1, n + 1))
        for i in range(n + 1):
            ci = math.comb(n, i)
            for j in range(max(0, i - (n - m)), min(i, m) + 1):
                P[j, i] = float(Fraction(math.comb(m, j) * math.comb(n - m, i - j), ci))
        _mat_cache[key] = P
    return _mat_cache[key]


def project(data, mask, ms):
    """Project an n-D array to sample sizes ms. Returns (data, mask); a target entry is masked iff some masked source
    entry has non-zero weight to it."""
    out = np.asarray(data, dtype=float)
    cnt = np.asarray(mask, dtype=float)
    for ax, m in enumerate(ms):
        n = out.shape[ax] - 1
        P = matrix(n, m)
        out = np.moveaxis(np.tensordot(P, out, axes=([1], [ax])), 0, ax)
        cnt = np.moveaxis(np.tensordot((P > 0).astype(float), cnt, axes=([1], [ax])), 0, ax)
    return out, cnt > 0.5
