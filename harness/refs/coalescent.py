"""Exact expected site frequency spectrum of one population with piecewise-constant size (coalescent; no dadi imports).

Time is measured in units of 2*N_ref generations and runs backwards from the present. While k lineages remain they coalesce at
rate C(k,2)/nu.  E[xi_i] = (theta/2) * sum_k k * P(a branch present while k lineages remain subtends i of the n samples) * E[T_k],
with P = C(n-i-1, k-2)/C(n-1, k-1) (Fu 1995) and E[T_k] the expected time during which exactly k lineages exist.
"""
import math

import numpy as np
from scipy.linalg import expm


def expected_times(n, epochs_back):
    """epochs_back: list of (nu, T) from the present backwards; the last entry must have T = inf.
    Returns E[T_k] for k = 2..n (array index k-2)."""
    ks = np.arange(2, n + 1)
    m = len(ks)
    p = np.zeros(m)
    p[-1] = 1.0                      # start with n lineages
    ET = np.zeros(m)
    for nu, T in epochs_back:
        Q = np.zeros((m, m))         # generator on the transient states k = 2..n: column k loses rate r_k, row k-1 gains it
        for j, k in enumerate(ks):
            r = k * (k - 1) / 2.0 / nu
            Q[j, j] = -r
            if j > 0:
                Q[j - 1, j] = r
        if math.isinf(T):
            ET += -np.linalg.solve(Q, p)
            p = np.zeros(m)
            break
        E = expm(Q * T)
        ET += np.linalg.solve(Q, (E - np.eye(m)) @ p)
        p = E @ p
    return ET


def expected_sfs(n, epochs_forward, theta=1.0, nu_anc=1.0):
    """epochs_forward: list of (nu, T) in forward-time order (oldest first), after an infinitely long ancestral epoch of size nu_anc."""
    back = [(nu, T) for nu, T in reversed(epochs_forward)] + [(nu_anc, math.inf)]
    ET = expected_times(n, back)
    out = np.zeros(n + 1)
    for i in range(1, n):
        s = 0.0
        for k in range(2, n - i + 2):
            s += k * math.comb(n - i - 1, k - 2) / math.comb(n - 1, k - 1) * ET[k - 2]
        out[i] = theta / 2.0 * s
    return out
