"""Catalogue of public dadi computations as JSON-describable 'ops' (used by C20).

An op is {'op': name, ...JSON args...}.  build(op, layout) -> dict of named inputs (arrays, spectra, lists, dicts) constructed
deterministically from the args; call(op, inputs) -> result.  run(op, layout) executes one op and reports
  result   canonical JSON-able value (arrays as {'shape','data','mask'})
  mutated  names of inputs that are not bit-for-bit what they were before the call
  aliased  names of array inputs that share memory with an array in the result (only judged for ops flagged 'fresh')
Every op is deterministic: those using dadi's random generators seed numpy's global generator as part of the op.
"""
import copy
import math

import numpy as np
from hypothesis import strategies as st

import logging
for _n in ('Spectrum_mod', 'Inference', 'Numerics'):
    logging.getLogger(_n).setLevel(logging.ERROR)

LAYOUTS = ['C', 'F', 'T', 'strided', 'neg']


# ------------------------------------------------------------------------------------------------ helpers
def lay(a, layout):
    """same values and shape as a, different memory layout"""
    a = np.array(a, dtype=float if a.dtype.kind == 'f' else a.dtype)
    if layout == 'C' or a.ndim == 0:
        return np.ascontiguousarray(a)
    if layout == 'F':
        return np.asfortranarray(a)
    if layout == 'T':
        return np.ascontiguousarray(a.T).T
    if layout == 'strided':
        big = np.zeros((2 * a.shape[0],) + a.shape[1:], a.dtype)
        big[::2] = a
        return big[::2]
    if layout == 'neg':
        return np.ascontiguousarray(a[::-1])[::-1]
    raise ValueError(layout)


def canon(x):
    import dadi
    if isinstance(x, np.ma.MaskedArray):
        d = np.asarray(np.ma.getdata(x), float)
        m = np.ma.getmaskarray(x)
        out = {'shape': list(d.shape), 'data': [float(v) for v in d.ravel()], 'mask': [bool(v) for v in m.ravel()]}
        if isinstance(x, dadi.Spectrum):
            out['folded'] = bool(x.folded)
            out['pop_ids'] = list(x.pop_ids) if x.pop_ids is not None else None
        return out
    if isinstance(x, np.ndarray):
        if x.dtype.kind in 'fc':
            return {'shape': list(x.shape), 'data': [float(v) for v in x.ravel()]}
        return {'shape': list(x.shape), 'data': [canon(v) for v in x.ravel().tolist()]}
    if isinstance(x, (np.floating, float)):
        return float(x)
    if isinstance(x, (np.integer, int)) and not isinstance(x, bool):
        return int(x)
    if isinstance(x, (bool, np.bool_)):
        return bool(x)
    if isinstance(x, (list, tuple)):
        return [canon(v) for v in x]
    if isinstance(x, dict):
        return {str(k): canon(v) for k, v in sorted(x.items(), key=lambda kv: str(kv[0]))}
    if x is None or isinstance(x, str):
        return x
    return repr(x)


def same(a, b, tol=1e-12, path=''):
    """None if canonical values a and b agree (floats to tol relative within each array, everything else exactly)"""
    if isinstance(a, dict) and isinstance(b, dict):
        if set(a) != set(b):
            return '%s: keys %s vs %s' % (path, sorted(a), sorted(b))
        if 'shape' in a and 'data' in a:
            if a['shape'] != b['shape']:
                return '%s: shape %s vs %s' % (path, a['shape'], b['shape'])
            if a.get('mask') != b.get('mask'):
                return '%s: masks differ' % path
            for k in a:
                if k not in ('shape', 'data', 'mask') and a[k] != b[k]:
                    return '%s: %s %r vs %r' % (path, k, a[k], b[k])
            da, db = a['data'], b['data']
            if da and isinstance(da[0], float):
                x, y = np.array(da, float), np.array(db, float)
                if (np.isnan(x) != np.isnan(y)).any():
                    return '%s: NaN pattern differs' % path
                fin = np.isfinite(x) & np.isfinite(y)
                if (x[~fin & ~np.isnan(x)] != y[~fin & ~np.isnan(y)]).any():
                    return '%s: infinities differ' % path
                if fin.any():
                    scale = max(np.abs(x[fin]).max(), np.abs(y[fin]).max())
                    d = np.abs(x[fin] - y[fin]).max()
                    if d > tol * scale:
                        i = int(np.argmax(np.abs(x[fin] - y[fin])))
                        return '%s: values differ by %.3e relative (entry %d: %r vs %r)' % (path, d / scale, i, float(x[fin][i]), float(y[fin][i]))
                return None
            return None if da == db else '%s: data differ' % path
        for k in a:
            r = same(a[k], b[k], tol, path + '/' + k)
            if r:
                return r
        return None
    if isinstance(a, list) and isinstance(b, list):
        if len(a) != len(b):
            return '%s: length %d vs %d' % (path, len(a), len(b))
        if a and all(isinstance(v, float) for v in a) and all(isinstance(v, float) for v in b):
            return same({'shape': [len(a)], 'data': a}, {'shape': [len(b)], 'data': b}, tol, path)
        for i, (x, y) in enumerate(zip(a, b)):
            r = same(x, y, tol, '%s[%d]' % (path, i))
            if r:
                return r
        return None
    if isinstance(a, float) and isinstance(b, float):
        if math.isnan(a) and math.isnan(b):
            return None
        if a == b:
            return None
        if math.isinf(a) or math.isinf(b) or math.isnan(a) or math.isnan(b):
            return '%s: %r vs %r' % (path, a, b)
        return None if abs(a - b) <= tol * max(abs(a), abs(b)) else '%s: %r vs %r' % (path, a, b)
    return None if a == b and type(a) == type(b) else '%s: %r vs %r' % (path, a, b)


def snapshot(v):
    import dadi
    if isinstance(v, np.ma.MaskedArray):
        return ('ma', np.array(np.ma.getdata(v), copy=True), np.array(np.ma.getmaskarray(v), copy=True),
                getattr(v, 'folded', None), copy.copy(getattr(v, 'pop_ids', None)))
    if isinstance(v, np.ndarray):
        return ('nd', np.array(v, copy=True))
    return ('py', copy.deepcopy(v))


def unchanged(v, snap):
    if snap[0] == 'ma':
        d, m = np.ma.getdata(v), np.ma.getmaskarray(v)
        return (d.shape == snap[1].shape and np.array_equal(d, snap[1], equal_nan=True) and np.array_equal(m, snap[2])
                and getattr(v, 'folded', None) == snap[3] and getattr(v, 'pop_ids', None) == snap[4])
    if snap[0] == 'nd':
        return v.shape == snap[1].shape and np.array_equal(v, snap[1], equal_nan=(v.dtype.kind == 'f'))
    return canon(v) == canon(snap[1]) and type(v) == type(snap[1])


def arrays_in(x):
    if isinstance(x, np.ndarray):
        yield x
    elif isinstance(x, (list, tuple)):
        for v in x:
            for a in arrays_in(v):
                yield a
    elif isinstance(x, dict):
        for v in x.values():
            for a in arrays_in(v):
                yield a


# ------------------------------------------------------------------------------------------------ input builders
MASKED = st.sampled_from([False, True, 'open'])


def _fs(shape, seed, folded=False, masked=False, pop_ids=False, layout='C', integer=False):
    import dadi
    rs = np.random.RandomState(seed)
    d = rs.gamma(0.7, 5.0, size=tuple(shape))
    if integer:
        d = np.round(d)
    m = np.zeros(tuple(shape), bool)
    if masked is True:
        m = rs.rand(*shape) < 0.15
    if masked != 'open':      # 'open': nothing masked, not even the corners (Spectrum(..., mask_corners=False), unmask_all())
        m.flat[0] = m.flat[-1] = True
    fs = dadi.Spectrum(lay(d, layout), mask=m, mask_corners=False, pop_ids=['a', 'b', 'c', 'd', 'e'][:len(shape)] if pop_ids else None)
    if folded:
        fs = fs.fold()
    return fs


def _grid(L, kind, seed):
    import dadi
    if kind == 'default':
        return dadi.Numerics.default_grid(L)
    rs = np.random.RandomState(seed)
    if kind == 'uniform':
        return np.linspace(0, 1, L)
    x = np.sort(rs.rand(L - 2))
    return np.concatenate([[0.0], 0.02 + 0.96 * x, [1.0]])


def _phi(L, nd, seed):
    rs = np.random.RandomState(seed)
    return rs.gamma(1.0, 1.0, size=(L,) * nd) + 0.01


def _dd(seed, npop, nsnp):
    rs = np.random.RandomState(seed)
    pops = ['P%d' % i for i in range(npop)]
    dd = {}
    for s in range(nsnp):
        calls = {}
        for p in pops:
            n = int(rs.randint(4, 9))
            k = int(rs.randint(0, n + 1))
            calls[p] = (n - k, k)
        ref, alt = 'A', 'G'
        og = ref if rs.rand() < 0.8 else ('-' if rs.rand() < 0.5 else alt)
        dd['chr%d_%d' % (s % 3, s)] = {'segregating': (ref, alt), 'calls': calls, 'outgroup_allele': og, 'context': '-%s-' % ref,
                                       'outgroup_context': '-%s-' % og}
    return dd, pops


class _LinModel:
    """affine Poisson model: fs(p) = A0 + sum_i p_i A_i (function object with the signature dadi's uncertainty code expects)"""
    def __init__(self, seed, k, n):
        rs = np.random.RandomState(seed)
        self.A0 = np.exp(rs.normal(1.0, 0.5, n + 1))
        self.A = np.exp(rs.normal(0.0, 0.7, (k, n + 1)))

    def __call__(self, params, ns, pts):
        import dadi
        # a mild dependence on the grid setting, as every real model has: (1 + 1/pts) with pts the first (or only) grid size
        g = float(np.atleast_1d(pts)[0]) if pts is not None else 10.0
        return dadi.Spectrum((self.A0 + np.asarray(params, float) @ self.A) * (1.0 + 1.0 / g))


# ------------------------------------------------------------------------------------------------ the catalogue
OPS = {}


def op(name, fresh=False, layouts=()):
    def deco(cls):
        cls.name, cls.fresh, cls.layouts = name, fresh, tuple(layouts)
        OPS[name] = cls
        return cls
    return deco


small_shape = st.lists(st.integers(3, 8), min_size=1, max_size=3)
seed_st = st.integers(0, 10 ** 6)


@op('project', layouts=['fs'])
class Project:
    @staticmethod
    def strategy(draw):
        shape = draw(small_shape)
        return dict(shape=shape, seed=draw(seed_st), to=[draw(st.integers(1, s - 1)) for s in shape], folded=draw(st.booleans()), masked=draw(MASKED))

    @staticmethod
    def build(a, layout):
        return dict(fs=_fs(a['shape'], a['seed'], a['folded'], a['masked'], True, layout), to=list(a['to']))

    @staticmethod
    def call(a, i):
        return i['fs'].project(i['to'])


@op('spectrum-methods', layouts=['fs'])
class Methods:
    @staticmethod
    def strategy(draw):
        shape = draw(small_shape)
        return dict(shape=shape, seed=draw(seed_st), masked=draw(MASKED), which=draw(st.sampled_from(['fold', 'marginalize', 'stats', 'reorder', 'combine', 'arith'])))

    @staticmethod
    def build(a, layout):
        return dict(fs=_fs(a['shape'], a['seed'], False, a['masked'], True, layout))

    @staticmethod
    def call(a, i):
        fs = i['fs']
        nd = fs.ndim
        w = a['which']
        if w == 'fold':
            return fs.fold()
        if w == 'marginalize':
            return fs.marginalize([0]) if nd > 1 else fs.S()
        if w == 'stats':
            out = [fs.S(), fs.pi() if nd == 1 else None, fs.Watterson_theta() if nd == 1 else None, fs.Tajima_D() if nd == 1 else None]
            if nd >= 2:
                out.append(fs.Fst())
            return out
        if w == 'reorder':
            return fs.reorder_pops(list(range(nd, 0, -1)))
        if w == 'combine':
            return fs.combine_pops([1, 2]) if nd >= 2 else fs.fold().unfold()
        return [fs + fs, fs * 2.0, fs / 3.0, (fs - 0.5 * fs).sum()]


@op('from_phi', layouts=['phi', 'xx'])
class FromPhi:
    @staticmethod
    def strategy(draw):
        nd = draw(st.integers(1, 3))
        # few grid sizes and sample sizes, several different grids of each size: calls in one history then share everything a memo
        # might be keyed on except the grid itself
        return dict(nd=nd, L=draw(st.sampled_from([6, 9] if nd < 3 else [6, 7])), grid=draw(st.sampled_from(['default', 'uniform', 'random', 'random'])),
                    gseed=draw(st.integers(0, 2)), seed=draw(st.integers(0, 3)), ns=[draw(st.sampled_from([2, 5])) for _ in range(nd)],
                    force_direct=draw(st.integers(0, 3) == 0) if False else draw(st.sampled_from([False, False, False, True])))

    @staticmethod
    def build(a, layout):
        return dict(phi=lay(_phi(a['L'], a['nd'], a['seed']), layout), xx=lay(_grid(a['L'], a['grid'], a['gseed']), layout if layout in ('strided', 'neg') else 'C'),
                    ns=list(a['ns']))

    @staticmethod
    def call(a, i):
        import dadi
        return dadi.Spectrum.from_phi(i['phi'], i['ns'], [i['xx']] * a['nd'], force_direct=a['force_direct'])


@op('from_phi_inbreeding', layouts=['phi'])
class FromPhiInbreeding:
    @staticmethod
    def strategy(draw):
        nd = draw(st.integers(1, 2))
        pl = draw(st.sampled_from([2, 2, 4]))
        return dict(nd=nd, L=draw(st.integers(5, 10)), seed=draw(seed_st), ploidy=pl, nind=[draw(st.integers(1, 3)) for _ in range(nd)],
                    Fs=[draw(st.sampled_from([0.1, 0.3, 0.7])) for _ in range(nd)], grid=draw(st.sampled_from(['default', 'default', 'uniform', 'random'])), gseed=draw(st.integers(0, 2)))

    @staticmethod
    def build(a, layout):
        import dadi
        return dict(phi=lay(_phi(a['L'], a['nd'], a['seed']), layout), xx=_grid(a['L'], a.get('grid', 'default'), a.get('gseed', 0)),
                    ns=[a['ploidy'] * n for n in a['nind']], Fs=list(a['Fs']), ploidys=[a['ploidy']] * a['nd'])

    @staticmethod
    def call(a, i):
        import dadi
        return dadi.Spectrum.from_phi_inbreeding(i['phi'], i['ns'], [i['xx']] * a['nd'], i['Fs'], i['ploidys'])


@op('integrate', fresh=True, layouts=['phi', 'xx'])
class Integrate:
    @staticmethod
    def strategy(draw):
        nd = draw(st.integers(1, 5))
        L = draw(st.integers(5, {1: 14, 2: 10, 3: 7, 4: 6, 5: 5}[nd]))
        ms = [[0.0 if i == j else draw(st.sampled_from([0.0, 0.0, 0.5, 2.0])) for j in range(nd)] for i in range(nd)]
        return dict(nd=nd, L=L, seed=draw(seed_st), nus=[draw(st.sampled_from([0.3, 1.0, 2.5])) for _ in range(nd)], ms=ms,
                    gammas=[draw(st.sampled_from([0.0, 0.0, -2.0, 1.0])) for _ in range(nd)], steps=draw(st.sampled_from([0.0, 0.5, 2.5])),
                    mode=draw(st.sampled_from(['const', 'func'])), theta0=draw(st.sampled_from([1.0, 0.0, 3.0])), grid=draw(st.sampled_from(['default', 'default', 'uniform', 'random'])), gseed=draw(st.integers(0, 2)))

    @staticmethod
    def build(a, layout):
        import dadi
        return dict(phi=lay(_phi(a['L'], a['nd'], a['seed']), layout), xx=lay(_grid(a['L'], a.get('grid', 'default'), a.get('gseed', 0)), layout if layout in ('strided', 'neg') else 'C'))

    @staticmethod
    def call(a, i):
        from harness import drivers as D
        from dadi import Integration
        nd = a['nd']
        T = a['steps'] * Integration.timescale_factor / D.max_rate(a['nus'], a['ms'], a['gammas'])
        wrap = (lambda v: v if v == 0 else D.as_fn(v)) if a['mode'] == 'func' else (lambda v: v)
        kw = D.driver_kwargs(nd, a['nus'], a['ms'], a['gammas'], [0.5] * nd, a['theta0'], wrap=wrap)
        return D.DRIVERS[nd](i['phi'], i['xx'], T, **kw)


@op('likelihood', layouts=['model', 'data'])
class Likelihood:
    @staticmethod
    def strategy(draw):
        shape = draw(small_shape)
        return dict(shape=shape, seed=draw(seed_st), folded=draw(st.booleans()), masked=draw(MASKED),
                    which=draw(st.sampled_from(['ll', 'll_multinom', 'scaling', 'residuals', 'll_per_bin'])))

    @staticmethod
    def build(a, layout):
        return dict(model=_fs(a['shape'], a['seed'], False, False, False, layout), data=_fs(a['shape'], a['seed'] + 1, a['folded'], a['masked'], False, layout, integer=True))

    @staticmethod
    def call(a, i):
        from dadi import Inference
        w = a['which']
        if w == 'll':
            return Inference.ll(i['model'], i['data'])
        if w == 'll_multinom':
            return Inference.ll_multinom(i['model'], i['data'])
        if w == 'scaling':
            return [Inference.optimal_sfs_scaling(i['model'], i['data']), Inference.optimally_scaled_sfs(i['model'], i['data'])]
        if w == 'residuals':
            return [Inference.linear_Poisson_residual(i['model'], i['data']), Inference.Anscombe_Poisson_residual(i['model'], i['data'])]
        return Inference.ll_per_bin(i['model'], i['data'])


@op('lowpass')
class LowPassOp:
    @staticmethod
    def strategy(draw):
        nseq = 2 * draw(st.integers(1, 5))
        return dict(nseq=nseq, nsub=2 * draw(st.integers(1, nseq // 2)), F=draw(st.sampled_from([0, 0, 0.2])), which=draw(st.sampled_from(['partitions', 'projection', 'calling'])))

    @staticmethod
    def build(a, layout):
        d = np.arange(0, 31)
        p = np.exp(-0.5 * ((d - 8.0) / 4.0) ** 2)
        return dict(cov=np.array([d, p / p.sum()]))

    @staticmethod
    def call(a, i):
        from dadi.LowPass import LowPass as LP
        if a['which'] == 'partitions':
            parts, probs = LP.partitions_and_probabilities(a['nseq'], 'genotype', a['F'])
            return [[list(map(int, q)) for q in p] for p in parts], [list(map(float, p)) for p in probs]
        if a['which'] == 'projection':
            return np.asarray(LP.projection_matrix(a['nseq'], a['nsub'], a['F']), float)
        return np.asarray(LP.calling_error_matrix(i['cov'], a['nsub'], a['F']), float)


@op('lowpass-model')
class LowPassModel:
    """the low-coverage pipeline for two or three populations with different depths and sample sizes: depth distributions from a
    data dictionary, then the corrected model (analytic regime, no random numbers)"""
    NAMES = ['YRI', 'CEU', 'pop_3', 'a', 'Zz9', 'deme_six']

    @staticmethod
    def strategy(draw):
        P = draw(st.integers(2, 3))
        nseq = [2 * draw(st.integers(1, 3)) for _ in range(P)]
        return dict(P=P, nseq=nseq, nsub=[2 * draw(st.integers(1, n // 2)) for n in nseq], names=draw(st.permutations(LowPassModel.NAMES))[:P],
                    depth=[draw(st.sampled_from([2.0, 5.0, 12.0])) for _ in range(P)], seed=draw(st.integers(0, 3)))

    @staticmethod
    def build(a, layout):
        rs = np.random.RandomState(a['seed'])
        dd = {}
        for s in range(25):
            dd['chr1_%d' % (s + 1)] = dict(coverage={n: rs.poisson(d, size=k // 2) for n, d, k in zip(a['names'], a['depth'], a['nseq'])})
        return dict(dd=dd, pop_ids=list(a['names']), nseq=list(a['nseq']), nsub=list(a['nsub']))

    @staticmethod
    def call(a, i):
        import dadi
        from dadi.LowPass import LowPass as LP
        rs = np.random.RandomState(a['seed'] + 11)
        vals = rs.uniform(0.1, 5.0, size=[n + 1 for n in a['nseq']])
        cov = LP.compute_cov_dist(i['dd'], i['pop_ids'])
        f = LP.make_low_pass_func_GATK_multisample(lambda params, ns, pts: dadi.Spectrum(vals * params[0]), cov, i['pop_ids'], i['nseq'], i['nsub'],
                                                   sim_threshold=1)
        out = f([1.5], i['nsub'], [10])
        return [np.asarray(cov[n], float) for n in i['pop_ids']], out


@op('numerics-caches')
class NumCaches:
    @staticmethod
    def strategy(draw):
        n = draw(st.integers(1, 6))
        mv = draw(st.sampled_from([1, 2, 2, 3, 4]))
        pf = draw(st.integers(2, 14))
        pt = draw(st.integers(1, pf))
        return dict(n=n, maxval=mv, x=draw(st.integers(0, n * mv)), proj_from=pf, proj_to=pt, hits=draw(st.integers(0, pf)),
                    a=draw(st.sampled_from([0.5, 2.0])), b=draw(st.sampled_from([0.7, 3.0])))

    @staticmethod
    def build(a, layout):
        return {}

    @staticmethod
    def call(a, i):
        from dadi import Numerics
        parts = [list(map(int, p)) for p in Numerics.cached_part(a['x'], a['n'], 0, a['maxval'])]
        counts, multi = Numerics.cached_part_precalc(a['x'], a['n'], 0, a['maxval'])
        proj = np.array(Numerics._cached_projection(a['proj_to'], a['proj_from'], a['hits']), float)
        bb = Numerics.BetaBinomConvolution(a['x'], a['n'], a['a'], a['b'], ploidy=a['maxval'])
        return [parts, [list(map(int, c)) for c in counts], [float(m) for m in multi], proj, float(bb),
                float(Numerics.multinomln([a['x'], a['n'], a['hits']])), float(Numerics._lncomb(a['proj_from'], a['proj_to']))]


_SHARED_MODELS = {}


@op('godambe')
class GodambeOp:
    @staticmethod
    def strategy(draw):
        k = draw(st.integers(1, 2))
        return dict(k=k, n=draw(st.sampled_from([5, 6])), mseed=draw(st.integers(0, 1)), p=[draw(st.sampled_from([0.8, 1.7, 3.0])) for _ in range(k)],
                    dseed=draw(st.integers(0, 3)), which=draw(st.sampled_from(['FIM', 'GIM', 'LRT'])), multinom=draw(st.booleans()), log=draw(st.booleans()),
                    container=draw(st.sampled_from(['list', 'array', 'tuple'])), adjust=draw(st.booleans()),
                    shared=draw(st.sampled_from([True, True, True, False])), pts=draw(st.sampled_from([10, 10, 25])))

    @staticmethod
    def build(a, layout):
        import dadi
        model = _LinModel(a['mseed'], a['k'], a['n'])
        rs = np.random.RandomState(a['dseed'])
        mean = model(a['p'], None, None)
        data = dadi.Spectrum(np.round(np.asarray(mean) * 20 + rs.rand(a['n'] + 1) * 3))
        boots = [dadi.Spectrum(np.round(np.asarray(mean) * 20 + rs.rand(a['n'] + 1) * 6)) for _ in range(5)]
        p0 = [float(v) for v in a['p']]
        kind = a.get('container', 'list')
        return dict(data=data, boots=boots, p0=np.array(p0) if kind == 'array' else (tuple(p0) if kind == 'tuple' else p0))

    @staticmethod
    def call(a, i):
        from dadi import Godambe
        if a.get('shared'):
            # the same function object in every call of this process, as a model defined once at module level is
            model = _SHARED_MODELS.setdefault((a['mseed'], a['k'], a['n']), _LinModel(a['mseed'], a['k'], a['n']))
        else:
            model = _LinModel(a['mseed'], a['k'], a['n'])     # a new function object for every call, as a user's closure would be
        p0 = i['p0']
        # bootstrap-specific theta adjustments (only meaningful without the multinomial rescaling)
        adj = dict(boot_theta_adjusts=[0.8, 1.0, 1.3, 0.9, 1.1]) if (a.get('adjust') and not a['multinom']) else {}
        if a['which'] == 'FIM':
            return np.asarray(Godambe.FIM_uncert(model, [a.get('pts', 10)], p0, i['data'], log=a['log'], multinom=a['multinom'], eps=0.01), float)
        if a['which'] == 'GIM':
            return np.asarray(Godambe.GIM_uncert(model, [a.get('pts', 10)], i['boots'], p0, i['data'], log=a['log'], multinom=a['multinom'], eps=0.01, **adj), float)
        return float(Godambe.LRT_adjust(model, [a.get('pts', 10)], i['boots'], p0, i['data'], [0], multinom=a['multinom'], eps=0.01, **adj))


@op('demes')
class DemesOp:
    @staticmethod
    def strategy(draw):
        from harness import programs as P
        prog = draw(P.program(max_pops=3, max_steps=3))
        prog['pts'] = min(prog['pts'], 10)
        return dict(prog=prog, which=draw(st.sampled_from(['sfs', 'sfs', 'export', 'native'])))

    @staticmethod
    def build(a, layout):
        return {}

    @staticmethod
    def call(a, i):
        import dadi
        from harness import programs as P
        prog = a['prog']
        if a['which'] == 'sfs':
            g, sampled, times = P.to_demes(prog)
            kw = dict(sample_times=list(times)) if any(times) else {}
            return dadi.Demes.SFS(g, list(sampled), [prog['ns']] * len(sampled), prog['pts'], theta=prog['theta'], **kw)
        fs = P.run_native(prog)
        if a['which'] == 'native' or P.features(prog)['ancient']:
            return fs
        g = dadi.Demes.output(Nref=prog['N0'])
        return [fs, g.asdict()]


@op('data_dict')
class DataDict:
    @staticmethod
    def strategy(draw):
        npop = draw(st.integers(1, 2))
        return dict(npop=npop, seed=draw(st.integers(0, 5)), nsnp=draw(st.integers(3, 25)), proj=[draw(st.integers(2, 4)) for _ in range(npop)],
                    polarized=draw(st.booleans()))

    @staticmethod
    def build(a, layout):
        dd, pops = _dd(a['seed'], a['npop'], a['nsnp'])
        return dict(dd=dd, pops=pops, proj=list(a['proj']))

    @staticmethod
    def call(a, i):
        import dadi
        return dadi.Spectrum.from_data_dict(i['dd'], i['pops'], i['proj'], polarized=a['polarized'])


@op('perturb')
class Perturb:
    @staticmethod
    def strategy(draw):
        k = draw(st.integers(1, 4))
        return dict(k=k, seed=draw(st.integers(0, 5)), fold=draw(st.sampled_from([0.5, 1, 2])), bounds=draw(st.sampled_from(['none', 'lists', 'partial', 'arrays'])))

    @staticmethod
    def build(a, layout):
        k = a['k']
        p = [0.5 + 0.7 * j for j in range(k)]
        if a['bounds'] == 'none':
            lo, up = None, None
        elif a['bounds'] == 'lists':
            lo, up = [0.01] * k, [10.0] * k
        elif a['bounds'] == 'arrays':
            p, lo, up = np.array(p), np.full(k, 0.01), np.full(k, 10.0)
        else:
            lo, up = [None if j % 2 else 0.01 for j in range(k)], [10.0 if j % 2 else None for j in range(k)]
        return dict(params=p, lower=lo, upper=up)

    @staticmethod
    def call(a, i):
        from dadi import Misc
        np.random.seed(a['seed'])
        return [float(v) for v in Misc.perturb_params(i['params'], fold=a['fold'], lower_bound=i['lower'], upper_bound=i['upper'])]


@op('sample', layouts=['fs'])
class Sample:
    @staticmethod
    def strategy(draw):
        return dict(shape=draw(small_shape), seed=draw(seed_st), rseed=draw(st.integers(0, 5)), which=draw(st.sampled_from(['sample', 'scramble', 'fixed_size'])),
                    masked=draw(st.sampled_from([False, 'open'])))

    @staticmethod
    def build(a, layout):
        return dict(fs=_fs(a['shape'], a['seed'], False, a.get('masked', False), True, layout, integer=True))

    @staticmethod
    def call(a, i):
        np.random.seed(a['rseed'])
        fs = i['fs']
        if a['which'] == 'sample':
            return fs.sample()
        if a['which'] == 'scramble':
            return fs.scramble_pop_ids()
        return fs.fixed_size_sample(int(fs.S()) // 2 + 1)


@op('model')
class Model:
    MODELS = {'two_epoch': ('Demographics1D', [2.0, 0.05], 1), 'growth': ('Demographics1D', [3.0, 0.08], 1), 'snm1': ('Demographics1D', [], 1),
              'split_mig': ('Demographics2D', [0.8, 2.0, 0.05, 1.0], 2), 'IM': ('Demographics2D', [0.3, 1.0, 2.0, 0.05, 0.5, 1.5], 2)}

    @staticmethod
    def strategy(draw):
        return dict(model=draw(st.sampled_from(sorted(Model.MODELS))), n=draw(st.integers(3, 8)), pts=draw(st.sampled_from([10, 14])),
                    extrap=draw(st.booleans()))

    @staticmethod
    def build(a, layout):
        return dict(params=list(Model.MODELS[a['model']][1]))

    @staticmethod
    def call(a, i):
        import dadi
        mod, _, nd = Model.MODELS[a['model']]
        f = getattr(getattr(dadi, mod), a['model'].replace('snm1', 'snm'))
        ns = (a['n'],) * nd
        if a['extrap']:
            return dadi.Numerics.make_extrap_func(f)(i['params'], ns, [a['pts'], a['pts'] + 4, a['pts'] + 8])
        return f(i['params'], ns, a['pts'])


@op('optimize')
class Optimize:
    @staticmethod
    def strategy(draw):
        return dict(seed=draw(st.integers(0, 3)), n=draw(st.integers(4, 7)), which=draw(st.sampled_from(['object_func', 'optimize_log', 'optimize', 'project'])),
                    fixed=draw(st.booleans()), multinom=draw(st.booleans()), bounds=draw(st.booleans()), container=draw(st.sampled_from(['list', 'array'])))

    @staticmethod
    def build(a, layout):
        import dadi
        model = _LinModel(a['seed'], 2, a['n'])
        data = dadi.Spectrum(np.round(np.asarray(model([1.2, 0.7], None, None)) * 15))
        wrap = (lambda v: np.array(v, float)) if a.get('container') == 'array' else (lambda v: v)
        return dict(p0=wrap([1.0, 1.0]), data=data, lower=wrap([0.05, 0.05]) if a['bounds'] else None, upper=wrap([20.0, 20.0]) if a['bounds'] else None,
                    fixed=[None, 0.7] if a['fixed'] else None)

    @staticmethod
    def call(a, i):
        import io
        from dadi import Inference
        model = _LinModel(a['seed'], 2, a['n'])
        kw = dict(lower_bound=i['lower'], upper_bound=i['upper'], fixed_params=i['fixed'], multinom=a['multinom'])
        if a['which'] == 'project':
            down = Inference._project_params_down(i['p0'], i['fixed'])
            return [list(map(float, down)), list(map(float, Inference._project_params_up(down, i['fixed'])))]
        if a['which'] == 'object_func':
            p = Inference._project_params_down(i['p0'], i['fixed'])
            return float(Inference._object_func(p, i['data'], model, [10], output_stream=io.StringIO(), **kw))
        f = Inference.optimize_log if a['which'] == 'optimize_log' else Inference.optimize
        return [float(v) for v in f(i['p0'], i['data'], model, [10], maxiter=3, **kw)]


@op('phimanip', layouts=['phi'])
class PhiManipOp:
    @staticmethod
    def strategy(draw):
        nd = draw(st.integers(1, 4))
        return dict(nd=nd, L=draw(st.integers(5, {1: 12, 2: 9, 3: 7, 4: 5}[nd])), seed=draw(st.integers(0, 5)),
                    which=draw(st.sampled_from(['split', 'admix-new', 'remove', 'reorder'])), f=draw(st.sampled_from([0.0, 0.25, 1.0])), idx=draw(st.integers(0, 3)),
                    grid=draw(st.sampled_from(['default', 'default', 'uniform', 'random'])), gseed=draw(st.integers(0, 2)))

    @staticmethod
    def build(a, layout):
        import dadi
        return dict(phi=lay(_phi(a['L'], a['nd'], a['seed']), layout), xx=_grid(a['L'], a.get('grid', 'default'), a.get('gseed', 0)))

    @staticmethod
    def call(a, i):
        from dadi import PhiManip
        nd, phi, xx, f = a['nd'], i['phi'], i['xx'], a['f']
        w = a['which']
        if w == 'remove' and nd >= 2:
            return PhiManip.remove_pop(phi, xx, a['idx'] % nd + 1)
        if w == 'reorder' and nd >= 2:
            order = list(range(1, nd + 1))
            order = order[a['idx'] % nd:] + order[:a['idx'] % nd]
            return np.array(PhiManip.reorder_pops(phi, order))
        if nd == 1:
            return PhiManip.phi_1D_to_2D(xx, phi)
        if nd == 2:
            if w == 'split':
                return [PhiManip.phi_2D_to_3D_split_1, PhiManip.phi_2D_to_3D_split_2][a['idx'] % 2](xx, phi)
            return PhiManip.phi_2D_to_3D_admix(phi, f, xx, xx, xx)
        if nd == 3:
            return PhiManip.phi_3D_to_4D(phi, f, (1 - f) * 0.5, xx, xx, xx, xx)
        return PhiManip.phi_4D_to_5D(phi, f, (1 - f) * 0.5, 0.0, xx, xx, xx, xx, xx)


def op_strategy(names=None):
    names = sorted(names or OPS)

    @st.composite
    def one(draw):
        n = draw(st.sampled_from(names))
        a = OPS[n].strategy(draw)
        a['op'] = n
        return a
    return one()


def run(a, layout='C'):
    cls = OPS[a['op']]
    inputs = cls.build(a, layout)
    snaps = {k: snapshot(v) for k, v in inputs.items()}
    res = cls.call(a, inputs)
    mutated = sorted(k for k, v in inputs.items() if not unchanged(v, snaps[k]))
    aliased = []
    if cls.fresh:
        for k, v in inputs.items():
            if isinstance(v, np.ndarray) and v.ndim >= 1 and v.size > 0:
                for r in arrays_in(res if not isinstance(res, np.ndarray) else [res]):
                    if r is v or np.shares_memory(np.asarray(r), np.asarray(v)):
                        aliased.append(k)
    return dict(result=canon(res), mutated=mutated, aliased=sorted(set(aliased)))
