"""Shared machinery: relations, recorders, sharded Hypothesis driving, replay files,
known-finding matching, evidence writing, exit codes.

A *relation* is (generator of JSON-able cases, check(case, rec)).  check() raises Violation when
the property fails on that case; any other exception escaping it is a harness error (exit 2),
except inside `dadi_call()` blocks, where an exception raised by the code under test is itself the
violation ("the call must work for this input").
"""
import collections
import contextlib
import hashlib
import json
import math
import os
import sys
import time
import traceback

VERIF = os.path.dirname(os.path.dirname(os.path.abspath(__file__)))
REPO = os.environ.get('DADI_VERIF_REPO', '/repo')


class Violation(AssertionError):
    def __init__(self, msg, **sig):
        AssertionError.__init__(self, msg)
        self.msg = msg
        self.sig = sig


class Reject(Exception):
    """Case outside the property's domain discovered only at run time (counted, not a failure)."""


@contextlib.contextmanager
def dadi_call(what='call', allow=(), **sig):
    """Exceptions raised by the code under test inside this block are property violations."""
    try:
        yield
    except (Violation, Reject):
        raise
    except allow:
        raise
    except Exception as e:  # noqa
        tb = traceback.extract_tb(sys.exc_info()[2])
        where = ''
        for fr in reversed(tb):
            if '/dadi/' in fr.filename or fr.filename.startswith(REPO):
                where = ' at %s:%d' % (os.path.relpath(fr.filename, REPO), fr.lineno)
                break
        raise Violation('%s raised %s: %s%s' % (what, type(e).__name__, str(e)[:300], where),
                        exc=type(e).__name__, **sig)


def jhash(obj):
    return hashlib.md5(json.dumps(obj, sort_keys=True, default=str).encode()).hexdigest()[:16]


def derive_seed(seed, *parts):
    s = ':'.join([str(seed)] + [str(p) for p in parts])
    return int(hashlib.sha256(s.encode()).hexdigest()[:8], 16)


def _trim(obj, maxlen=1500):
    s = json.dumps(obj, default=str)
    if len(s) <= maxlen:
        return obj
    return {'truncated_json': s[:maxlen] + '...'}


class Recorder:
    def __init__(self, prop, relname, known=(), probe_mode=False):
        self.prop = prop
        self.rel = relname
        self.evaluations = 0
        self.nontrivial = set()
        self.samples = []
        self.labels = collections.Counter()
        self.excluded = collections.Counter()
        self.rejected = 0
        self.notes = collections.Counter()
        self._known = [k for k in known if k.get('property') == prop and k.get('relation') == relname
                       and k.get('status', 'open') == 'open']
        self.probe_mode = probe_mode
        self.max_err = {}
        self.harness_errors = collections.Counter()
        self.harness_examples = []

    def case(self, key, nontrivial=True, labels=()):
        """Count one executed case. key: JSON-able identity of the case."""
        self.evaluations += 1
        for l in labels:
            self.labels[str(l)] += 1
        if nontrivial:
            h = jhash(key)
            if h not in self.nontrivial:
                self.nontrivial.add(h)
                if len(self.samples) < 3:
                    self.samples.append(_trim(key))

    def label(self, *labels):
        for l in labels:
            self.labels[str(l)] += 1

    def err(self, name, value):
        """Track the worst observed discrepancy per named comparison (reported in evidence)."""
        try:
            v = float(value)
        except Exception:
            return
        if not (v <= self.max_err.get(name, -1.0)):
            self.max_err[name] = v

    def known(self, **sig):
        """True if an open known finding covers this signature (then the caller skips it)."""
        if self.probe_mode:
            return False
        for k in self._known:
            m = k.get('match', {})
            if all(sig.get(a) == b for a, b in m.items()):
                self.excluded[k['id']] += 1
                return True
        return False

    def dump(self):
        return dict(prop=self.prop, rel=self.rel, evaluations=self.evaluations,
                    nontrivial=sorted(self.nontrivial), samples=self.samples,
                    labels=dict(self.labels), excluded=dict(self.excluded), rejected=self.rejected,
                    max_err=self.max_err, harness_errors=dict(self.harness_errors), harness_examples=self.harness_examples)


class Relation:
    def __init__(self, name, fn, strategy=None, enum=None, quick=(200, 1), thorough=(2000, 4),
                 shrink=True, doc=''):
        self.name = name
        self.fn = fn
        self.strategy = strategy
        self.enum = enum
        self.quick = quick
        self.thorough = thorough
        self.shrink = shrink
        self.doc = doc or (fn.__doc__ or '').strip()

    def check(self, case, rec):
        return self.fn(case, rec)


class Registry:
    def __init__(self, prop, rule, assumptions=()):
        self.prop = prop
        self.rule = rule
        self.assumptions = list(assumptions)
        self.relations = collections.OrderedDict()

    def relation(self, name, strategy=None, enum=None, quick=(200, 1), thorough=(2000, 4), shrink=True):
        """strategy: Hypothesis strategy (or zero-arg callable returning one) of JSON-able cases.
        enum: callable(tier, shard, nshards, seed) -> iterable of JSON-able cases (exhaustive or scripted)."""
        def deco(fn):
            self.relations[name] = Relation(name, fn, strategy=strategy, enum=enum, quick=quick,
                                            thorough=thorough, shrink=shrink)
            return fn
        return deco


# ---------------------------------------------------------------------------------------------
# numeric helpers

def relerr(a, b):
    """max|a-b| / max(|b|) with nan-awareness: nan mismatch -> inf."""
    import numpy as np
    a = np.asarray(a, dtype=float)
    b = np.asarray(b, dtype=float)
    if a.shape != b.shape:
        return float('inf')
    if a.size == 0:
        return 0.0
    na, nb = np.isnan(a), np.isnan(b)
    if (na != nb).any():
        return float('inf')
    ok = ~na
    if not ok.any():
        return 0.0
    ia, ib = np.isinf(a) & ok, np.isinf(b) & ok
    if (ia != ib).any() or (a[ia] != b[ia]).any():
        return float('inf')
    ok &= ~ia
    if not ok.any():
        return 0.0
    scale = np.abs(b[ok]).max()
    d = np.abs(a[ok] - b[ok]).max()
    if d == 0:
        return 0.0
    return float(d / scale) if scale > 0 else float('inf')


def require_close(a, b, tol, what, rec=None, atol=0.0, key=None, **sig):
    """Violation unless max|a-b| <= tol*max|b| + atol."""
    import numpy as np
    a = np.asarray(a, dtype=float)
    b = np.asarray(b, dtype=float)
    atol = max(atol, 1e-290)          # differences in the subnormal range (where doubles lose their precision) are never judged
    if a.shape != b.shape:
        raise Violation('%s: shape %s != expected %s' % (what, a.shape, b.shape), **sig)
    if a.size == 0:
        return 0.0
    if (np.isnan(a) != np.isnan(b)).any() or (np.isinf(a) != np.isinf(b)).any():
        raise Violation('%s: non-finite pattern differs' % what, **sig)
    fin = np.isfinite(b)
    if (~fin).any():
        nf = np.isinf(b)
        if (a[nf] != b[nf]).any():
            raise Violation('%s: infinities differ' % what, **sig)
    if not fin.any():
        return 0.0
    scale = np.abs(b[fin]).max()
    diff = np.abs(a[fin] - b[fin])
    d = diff.max()
    e = d / scale if scale > 0 else (0.0 if d == 0 else float('inf'))
    if rec is not None:
        rec.err(key or what, e if d > atol else 0.0)
    if d > tol * scale + atol:
        idx = int(np.argmax(diff))
        raise Violation('%s: max abs diff %.3e (rel %.3e > tol %.1e) at flat index %d: got %r expected %r'
                        % (what, d, e, tol, idx, float(a[fin][idx]), float(b[fin][idx])), **sig)
    return e


def require(cond, msg, **sig):
    if not cond:
        raise Violation(msg, **sig)


# ---------------------------------------------------------------------------------------------
# known findings

def load_known():
    p = os.path.join(VERIF, 'known_findings.json')
    if not os.path.exists(p):
        return []
    with open(p) as f:
        d = json.load(f)
    return d.get('findings', [])


# ---------------------------------------------------------------------------------------------
# running one shard of one relation (in a worker process)

def run_shard(modname, relname, tier, shard, nshards, n, seed, progress_file=None):
    """Returns dict(rec=..., failure=None|{case,msg,sig}, error=None|str, wall=...)."""
    import importlib
    t0 = time.time()
    sys.stdout = open(os.devnull, 'w')   # the code under test prints debugging lines; workers report through return values only
    mod = importlib.import_module(modname)
    reg = mod.REG
    rel = reg.relations[relname]
    rec = Recorder(reg.prop, relname, known=load_known())
    failure = None
    error = None
    last = {}
    sseed = derive_seed(seed, reg.prop, relname, shard)

    import signal

    class _CaseTimeout(BaseException):
        pass

    class _ShardGivesUp(BaseException):
        pass

    def _on_alarm(signum, frame):
        raise _CaseTimeout()
    limit = int(os.environ.get('VERIF_CASE_TIMEOUT', '240'))
    try:
        signal.signal(signal.SIGALRM, _on_alarm)
        can_alarm = True
    except (ValueError, AttributeError):
        can_alarm = False

    def one(case):
        last['case'] = case
        if progress_file:
            with open(progress_file, 'w') as f:
                json.dump(case, f)
        try:
            if can_alarm:
                signal.alarm(limit)
            try:
                rel.check(case, rec)
            finally:
                if can_alarm:
                    signal.alarm(0)
        except _CaseTimeout:
            # A single case that does not come back within the limit (every case takes seconds on the unchanged tree) is
            # inconclusive, never a violation; it is counted and reported, and after three of them the shard stops.
            rec.harness_errors['case exceeded %d s (inconclusive)' % limit] += 1
            if len(rec.harness_examples) < 2:
                rec.harness_examples.append(dict(error='case exceeded %d s' % limit, where='timeout', case=_trim(case, 800)))
            if rec.harness_errors['case exceeded %d s (inconclusive)' % limit] >= 3:
                raise _ShardGivesUp()
        except Reject:
            rec.rejected += 1
        except Violation:
            raise
        except Exception as e:      # an exception outside dadi_call blocks: a defect of the harness/oracle, not a verdict
            tb = traceback.extract_tb(sys.exc_info()[2])
            where = '%s:%d' % (os.path.basename(tb[-1].filename), tb[-1].lineno) if tb else '?'
            rec.harness_errors['%s at %s' % (type(e).__name__, where)] += 1
            if len(rec.harness_examples) < 2:
                rec.harness_examples.append(dict(error='%s: %s' % (type(e).__name__, str(e)[:200]), where=where, case=_trim(case, 800)))

    covdir = os.environ.get('DADI_VERIF_LINECOV')      # exploration aid (tools/covreport.py): which dadi lines the checks execute
    covhit = {}
    if covdir:
        def _tracer(frame, event, arg):
            fn = frame.f_code.co_filename
            if '/dadi/' not in fn or '/verif/' in fn:
                return None
            hs = covhit.setdefault(fn, set())

            def _local(frame, event, arg):
                if event == 'line':
                    hs.add(frame.f_lineno)
                return _local
            hs.add(frame.f_lineno)
            return _local
        sys.settrace(_tracer)
    try:
        if rel.enum is not None:
            for case in rel.enum(tier, shard, nshards, sseed):
                one(case)
        else:
            import hypothesis
            from hypothesis import given, settings, HealthCheck, Phase
            strat = rel.strategy() if callable(rel.strategy) and not hasattr(rel.strategy, 'example') else rel.strategy
            phases = [Phase.generate] + ([Phase.shrink] if rel.shrink else [])

            @hypothesis.seed(sseed)
            @settings(max_examples=n, database=None, deadline=None, report_multiple_bugs=False,
                      suppress_health_check=list(HealthCheck), phases=phases, derandomize=False)
            @given(strat)
            def t(case):
                one(case)
            t()
    except Violation as v:
        failure = dict(case=last.get('case'), msg=v.msg, sig=v.sig)
    except _ShardGivesUp:
        pass
    except Exception as e:  # harness error (or Hypothesis Flaky etc.)
        error = '%s: %s\n%s' % (type(e).__name__, e, traceback.format_exc()[-3000:])
        if last.get('case') is not None:
            error += '\nlast case: %s' % json.dumps(last['case'], default=str)[:2000]
    if covdir:
        sys.settrace(None)
        os.makedirs(covdir, exist_ok=True)
        with open(os.path.join(covdir, '%s-%s-%d.json' % (reg.prop, relname, shard)), 'w') as f:
            json.dump({k: sorted(v) for k, v in covhit.items()}, f)
    return dict(rel=relname, shard=shard, rec=rec.dump(), failure=failure, error=error,
                wall=time.time() - t0)


def replay_case(modname, relname, case, probe_mode=False):
    import importlib
    mod = importlib.import_module(modname)
    reg = mod.REG
    rel = reg.relations[relname]
    rec = Recorder(reg.prop, relname, known=load_known(), probe_mode=probe_mode)
    try:
        rel.check(case, rec)
    except Reject:
        return None
    except Violation as v:
        return dict(case=case, msg=v.msg, sig=v.sig)
    return None


def matches_known(prop, relname, sig, known):
    for k in known:
        if k.get('status', 'open') != 'open':
            continue
        if k.get('property') != prop or k.get('relation') != relname:
            continue
        m = k.get('match', {})
        if all(sig.get(a) == b for a, b in m.items()):
            return k
    return None


def write_replay(prop, relname, failure, seed):
    d = os.path.join(VERIF, 'replays')
    os.makedirs(d, exist_ok=True)
    h = jhash(failure['case'])
    p = os.path.join(d, '%s-%s-%s.json' % (prop, relname, h))
    with open(p, 'w') as f:
        json.dump(dict(property=prop, relation=relname, seed=seed, message=failure['msg'],
                       sig=failure.get('sig', {}), case=failure['case']), f, indent=1, default=str)
    return os.path.relpath(p, VERIF)


def as_container(values, selector):
    """the same sequence of integers as a list, a tuple or an ndarray, chosen by the integer selector (argument-form axis)"""
    import numpy as np
    k = selector % 3
    if k == 0:
        return list(values)
    if k == 1:
        return tuple(values)
    return np.array(list(values))
