"""Shared Hypothesis strategies producing JSON-able cases, and builders turning them into objects."""
import numpy as np
from hypothesis import strategies as st

LABELS = ['YRI', 'CEU', 'pop 3', 'a b c', 'X', 'deme_6']


@st.composite
def spectrum_case(draw, min_dim=1, max_dim=3, min_n=1, max_n=8, max_entries=4000, masks=True, folded=None,
                  labels=True, values='counts', total_budget=None, long_axis=0):
    """A spectrum description: shape (=sample sizes+1), flat data, flat mask, folded flag, pop_ids.
    The data of a 'folded' case are unfolded data to be folded by the reference implementation."""
    nd = draw(st.integers(min_dim, max_dim))
    ns = []
    entries = 1
    if long_axis and draw(st.integers(0, 99)) < long_axis:
        # one axis with a large sample size (hundreds of chromosomes are routine; sizes around 2^8, 2^15, 2^16 are where narrow
        # integer types wrap), the other axes small
        nd = min(nd, 3)
        big = draw(st.sampled_from([254, 255, 256, 257, 300, 511, 32767, 32768, 65535, 65536, 70000]))
        where = draw(st.integers(0, nd - 1))
        ns = [big if i == where else draw(st.integers(1, 2 if big < 1000 else 1)) for i in range(nd)]
        if big > 1000 and nd == 3:
            nd, ns = 2, ns[:2] if where < 2 else ns[1:]
        entries = int(np.prod([n + 1 for n in ns]))
    else:
        for _ in range(nd):
            cap = max(min_n, min(max_n, int(max_entries // entries) - 1))
            n = draw(st.integers(min_n, cap))
            ns.append(n)
            entries *= (n + 1)
    shape = [n + 1 for n in ns]
    if entries <= 24:
        if values == 'counts':
            el = st.one_of(st.integers(0, 50).map(float), st.floats(0, 100), st.just(0.0))
        elif values == 'positive':
            el = st.floats(1e-3, 100)
        else:
            el = st.floats(-100, 100)
        data = draw(st.lists(el, min_size=entries, max_size=entries))
        if masks and draw(st.booleans()):
            p = draw(st.sampled_from([0.05, 0.2, 0.5]))
            thr = int(p * 100)
            mask = [1 if v < thr else 0 for v in draw(st.lists(st.integers(0, 99), min_size=entries, max_size=entries))]
        else:
            mask = [0] * entries
    else:
        # large arrays: values from a drawn seed (fast; the seed, not the array, is what shrinks and replays)
        rs = np.random.RandomState(draw(st.integers(0, 2 ** 31 - 1)))
        if values == 'counts':
            data = np.where(rs.rand(entries) < 0.5, rs.randint(0, 50, entries).astype(float), rs.uniform(0, 100, entries))
            data[rs.rand(entries) < draw(st.sampled_from([0.0, 0.1, 0.5]))] = 0.0
        elif values == 'positive':
            data = rs.uniform(1e-3, 100, entries)
        else:
            data = rs.uniform(-100, 100, entries)
        data = [float(v) for v in data]
        if masks and draw(st.booleans()):
            p = draw(st.sampled_from([0.05, 0.2, 0.5]))
            mask = [int(v) for v in (rs.rand(entries) < p)]
        else:
            mask = [0] * entries
    mask_corners = draw(st.booleans())
    if mask_corners:
        mask[0] = mask[-1] = 1
    fold = draw(st.booleans()) if folded is None else folded
    pop_ids = None
    if labels and draw(st.booleans()):
        pop_ids = list(draw(st.permutations(LABELS)))[:nd]
    # memory layout of the spectrum object handed to the code under test: C-contiguous, Fortran-ordered, or a transposed view
    # (what reorder_pops / swapaxes / .T return); the values, mask and labels are the same in every layout
    layout = draw(st.sampled_from(['C', 'C', 'C', 'F', 'view']))
    return dict(shape=shape, data=data, mask=mask, folded=fold, pop_ids=pop_ids, layout=layout)


def arrays(case):
    shape = tuple(case['shape'])
    return (np.array(case['data'], dtype=float).reshape(shape),
            np.array(case['mask'], dtype=bool).reshape(shape))


def make_fs(case, allow_fold=True):
    """dadi.Spectrum for a case. Folded cases are folded with the reference implementation (not dadi's fold)."""
    import dadi
    from harness.refs import folding
    data, mask = arrays(case)
    folded = False
    if case.get('folded') and allow_fold:
        data, mask = folding.fold(data, mask)
        folded = True
    layout = case.get('layout', 'C')
    if layout == 'F':
        return dadi.Spectrum(np.asfortranarray(data), mask=np.asfortranarray(mask), mask_corners=False, data_folded=folded, pop_ids=case.get('pop_ids'))
    if layout == 'view' and data.ndim >= 2:
        fs = dadi.Spectrum(np.ascontiguousarray(data.T), mask=np.ascontiguousarray(mask.T), mask_corners=False, data_folded=folded).transpose()
        fs.pop_ids = case.get('pop_ids')
        return fs
    return dadi.Spectrum(data, mask=mask, mask_corners=False, data_folded=folded, pop_ids=case.get('pop_ids'))


def fs_equal(a, b_data, b_mask, tol=1e-12, what='spectrum', rec=None, key=None, atol=1e-300):
    """Compare a Spectrum with reference (data, mask): masks identical, unmasked values close."""
    from harness.core import Violation, require_close
    am = np.ma.getmaskarray(a)
    if a.shape != b_data.shape:
        raise Violation('%s: shape %s != expected %s' % (what, a.shape, b_data.shape))
    if not np.array_equal(am, b_mask):
        idx = np.argwhere(am != b_mask)[0]
        raise Violation('%s: mask differs at %s: got %s expected %s' % (what, tuple(int(i) for i in idx), bool(am[tuple(idx)]), bool(b_mask[tuple(idx)])))
    ok = ~b_mask
    if ok.any():
        require_close(np.ma.getdata(a)[ok], b_data[ok], tol, what + ' values', rec, atol=atol, key=key or what)


def relayout(fs, layout):
    """the same spectrum (values, mask, flags, labels) in another memory layout: 'F' Fortran-ordered, 'view' a transposed view"""
    import dadi
    if layout not in ('F', 'view') or fs.ndim < 2:
        return fs
    d, m = np.ma.getdata(fs), np.ma.getmaskarray(fs)
    kw = dict(mask_corners=False, data_folded=bool(fs.folded))
    if layout == 'F':
        out = dadi.Spectrum(np.asfortranarray(d), mask=np.asfortranarray(m), **kw)
    else:
        out = dadi.Spectrum(np.ascontiguousarray(d.T), mask=np.ascontiguousarray(m.T), **kw).transpose()
    out.pop_ids = list(fs.pop_ids) if fs.pop_ids is not None else None
    return out
