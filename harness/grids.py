"""Grid and density generators shared by the integration checks (C01-C06)."""
import math

import numpy as np
from hypothesis import strategies as st


def loguniform(lo, hi):
    return st.floats(math.log(lo), math.log(hi)).map(math.exp)


@st.composite
def grid_spec(draw, min_pts=4, max_pts=14, kinds=('uniform', 'exponential', 'quadratic', 'random')):
    kind = draw(st.sampled_from(list(kinds)))
    L = draw(st.integers(min_pts, max_pts))
    if kind == 'quadratic':
        L = max(L, 20) if max_pts >= 20 else L
        if L < 20:
            kind = 'exponential'
    spec = dict(kind=kind, L=L)
    if kind == 'exponential':
        spec['crwd'] = draw(st.floats(1.0, 10.0))
    elif kind == 'random':
        spec['seed'] = draw(st.integers(0, 2 ** 31 - 1))
    return spec


def make_grid(spec, L=None):
    """Grid on [0,1] with xx[0]=0, xx[-1]=1, strictly increasing."""
    from dadi import Numerics   # the grid constructors are inputs, not the code under test here
    L = L or spec['L']
    kind = spec['kind']
    if kind == 'uniform':
        return np.linspace(0.0, 1.0, L)
    if kind == 'exponential':
        return np.ascontiguousarray(Numerics.exponential_grid(L, spec.get('crwd', 8.0)))
    if kind == 'quadratic':
        return np.ascontiguousarray(Numerics.quadratic_grid(L))
    rs = np.random.RandomState(spec['seed'])
    while True:
        inner = np.sort(rs.uniform(0.0, 1.0, L - 2))
        xx = np.concatenate([[0.0], inner, [1.0]])
        if np.diff(xx).min() > 1e-4:
            return xx


def make_phi(shape, seed, kind='random'):
    rs = np.random.RandomState(seed)
    if kind == 'random':
        return rs.uniform(0.0, 5.0, size=shape)
    if kind == 'sparse':
        phi = np.zeros(shape)
        n = max(1, int(np.prod(shape)) // 6)
        for _ in range(n):
            idx = tuple(rs.randint(0, s) for s in shape)
            phi[idx] = rs.uniform(0.1, 10.0)
        return phi
    if kind == 'edges':
        phi = np.zeros(shape)
        for _ in range(3 * len(shape)):
            idx = tuple(rs.choice([0, 1, s - 2, s - 1, rs.randint(0, s)]) for s in shape)
            phi[idx] = rs.uniform(0.1, 10.0)
        return phi
    if kind == 'smooth':
        axes = [np.linspace(0, 1, s) for s in shape]
        phi = np.ones(shape)
        for a, x in enumerate(axes):
            sl = [None] * len(shape)
            sl[a] = slice(None)
            phi = phi * (1.0 / (x + 0.05) + rs.uniform(0, 2))[tuple(sl)]
        return phi
    if kind == 'zeros':
        return np.zeros(shape)
    raise ValueError(kind)


PHI_KINDS = ['random', 'random', 'sparse', 'edges', 'smooth']
