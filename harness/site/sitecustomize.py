"""Redirect dadi's three compiled extension modules to the freshly rebuilt copies.

Active whenever DADI_VERIF_EXT_DIR is set and this directory is on PYTHONPATH, hence in every
subprocess and worker started by the verification harness.
"""
import importlib.abc
import importlib.machinery
import importlib.util
import os
import sys
import sysconfig

_MODS = ('dadi.integration_c', 'dadi.tridiag_cython', 'dadi.DFE.PDFs_cython')


class _DadiExtFinder(importlib.abc.MetaPathFinder):
    def find_spec(self, fullname, path=None, target=None):
        d = os.environ.get('DADI_VERIF_EXT_DIR')
        if not d or fullname not in _MODS:
            return None
        fn = os.path.join(d, fullname.split('.')[-1] + sysconfig.get_config_var('EXT_SUFFIX'))
        if not os.path.exists(fn):
            return None
        loader = importlib.machinery.ExtensionFileLoader(fullname, fn)
        return importlib.util.spec_from_file_location(fullname, fn, loader=loader)


def install():
    if not any(isinstance(f, _DadiExtFinder) for f in sys.meta_path):
        sys.meta_path.insert(0, _DadiExtFinder())


install()
