"""Random neutral dadi 'programs' over 1-5 populations, executed natively with dadi primitives and translated independently into
demes graphs (used by C16, and as whole-model workloads by C03/C20).

A program is a JSON-able dict:
  {'N0': reference size, 'theta': theta0, 'pts': grid points, 'ns': per-population sample size,
   'steps': [ {'event': {...} or None, 'integrate': {...}} ... ]}
Every step applies at most one discrete event and then one integration over all live populations, so every deme that ever exists
has an epoch of positive length and the integration epochs of the native program and of the graph coincide.

events: {'op':'branch','parent':i,'ancient':bool}   new population (last axis) copied from i; parent continues; ancient => frozen sample
        {'op':'split','parent':i}                   parent ends, two children; the native program then reorders the axes so that
                                                    both children come last (axes always in order of creation)
        {'op':'admix','props':[...], 'merge':bool}  new population (last) mixing the live ones; merge => contributing parents end
        {'op':'pulse','dest':j,'props':[...]}       props over the other live populations in index order
        {'op':'remove','pop':i}                     population ends (unsampled lineage)
integrate: {'T':..., 'sizes':[[nu_start, nu_end, kind]...], 'mig':[[into i from j]...]}   kind in constant / exponential / linear
"""
import math

import numpy as np
from hypothesis import strategies as st


# ---------------------------------------------------------------------------------------------- generation
def _one_pulse(draw, k, active):
    dest = draw(st.sampled_from(active))
    others = [i for i in range(k) if i != dest]
    props = []
    budget = 0.9
    for i in others:
        if i in active and draw(st.booleans()):
            f = draw(st.sampled_from([0.05, 0.1, 0.25, 0.4]))
            f = min(f, budget)
            budget -= f
            props.append(f)
        else:
            props.append(0.0)
    if not any(props):
        j = others.index([i for i in active if i != dest][0])
        props[j] = 0.2
    return dict(dest=dest, props=props)


def pulse_list(ev):
    """the pulses of a pulse event in the order they are applied"""
    return [dict(dest=ev['dest'], props=ev['props'])] + list(ev.get('then', []))


@st.composite
def program(draw, max_pops=5, max_steps=5, allow_ancient=True, allow_true_split=True, allow_growth=True, allow_mig=True,
            allow_remove=True, allow_pulse=True, allow_admix=True, favor_split=False, eager=False):
    # eager: populations are created at every step until max_pops is reached (so that max_pops populations, ancient samples
    # among them, are common rather than rare)
    nsteps = draw(st.integers(max_pops if eager else 1, max(max_steps, max_pops) if eager else max_steps))
    live = [dict(frozen=False)]          # mirrors the native axis order
    steps = []
    nanc = 0
    for s in range(nsteps):
        ev = None
        k = len(live)
        active = [i for i in range(k) if not live[i]['frozen']]
        choices = ['none']
        if k < max_pops and active:
            choices += ['branch', 'branch']
            if allow_true_split:
                choices.append('split')
                if favor_split:
                    choices += ['split', 'split', 'split']
                if k + 2 <= max_pops:
                    choices.append('split3')
            if allow_admix and len(active) >= 2:
                choices.append('admix')
            if allow_ancient and nanc < 2:
                choices.append('ancient')
        if allow_pulse and len(active) >= 2:
            choices.append('pulse')
        if allow_remove and len(active) >= 2:
            choices.append('remove')
        if s == 0 and k == 1:
            choices = [c for c in choices if c in ('none', 'branch', 'split', 'split3')]
        if eager and k < max_pops:
            grow = [c for c in choices if c in ('branch', 'ancient', 'ancient', 'split')]
            if s == 0:
                grow = [c for c in grow if c != 'ancient']
            choices = grow or choices
        c = draw(st.sampled_from(choices))
        if c == 'branch':
            ev = dict(op='branch', parent=draw(st.sampled_from(active)), ancient=False)
            live.append(dict(frozen=False))
        elif c == 'ancient':
            ev = dict(op='branch', parent=draw(st.sampled_from(active)), ancient=True)
            live.append(dict(frozen=True))
            nanc += 1
        elif c == 'split':
            p = draw(st.sampled_from(active))
            ev = dict(op='split', parent=p)
            live.pop(p)                      # both children go to the end (creation order is kept by an explicit reordering)
            live.append(dict(frozen=False))
            live.append(dict(frozen=False))
        elif c == 'split3':
            p = draw(st.sampled_from(active))
            ev = dict(op='split', parent=p, children=3)
            live.pop(p)
            live += [dict(frozen=False), dict(frozen=False), dict(frozen=False)]
        elif c == 'admix':
            w = [draw(st.sampled_from([0.0, 0.0, 1.0, 2.0, 3.0])) if i in active else 0.0 for i in range(k)]
            if sum(1 for x in w if x > 0) < 2:
                a, b = active[0], active[1]
                w[a], w[b] = 1.0, 2.0
            tot = sum(w)
            props = [x / tot for x in w]
            merge = draw(st.booleans()) and (k - sum(1 for x in props if x > 0) + 1 >= 1)
            ev = dict(op='admix', props=props, merge=bool(merge))
            if merge:
                live = [live[i] for i in range(k) if props[i] == 0]
            live.append(dict(frozen=False))
        elif c == 'pulse':
            ev = dict(op='pulse', **_one_pulse(draw, k, active))
            # further pulses applied straight after the first, with no integration in between (simultaneous pulses of the graph,
            # applied in the order listed): they need not commute
            nmore = draw(st.sampled_from([0, 0, 1, 1, 2]))
            if nmore:
                ev['then'] = [_one_pulse(draw, k, active) for _ in range(nmore)]
        elif c == 'remove':
            r = draw(st.sampled_from(active))
            ev = dict(op='remove', pop=r)
            live.pop(r)
        k = len(live)
        T = draw(st.sampled_from([0.02, 0.05, 0.1]))
        sizes = []
        cont = []
        anygrow = False
        for i in range(k):
            prev = live[i].get('prev')
            if prev is not None and not live[i]['frozen'] and draw(st.integers(0, 2)) == 0:
                # the deme's epoch simply continues through this step (same law, same rate): in the graph it is ONE epoch cut
                # by the events of the other demes
                pk, p0, p1, pT = prev
                if pk == 'constant':
                    nu0 = nu1 = p1
                elif pk == 'exponential':
                    nu0 = p1
                    nu1 = p1 * (p1 / p0) ** (T / pT)
                else:
                    nu0 = p1
                    nu1 = p1 + (p1 - p0) * T / pT
                if 0.05 <= nu1 <= 50.0:
                    sizes.append([nu0, nu1, pk])
                    cont.append(True)
                    live[i]['prev'] = (pk, nu0, nu1, T)
                    anygrow = anygrow or pk != 'constant'
                    continue
            nu0 = math.exp(draw(st.floats(math.log(0.3), math.log(4.0))))
            kind = 'constant'
            nu1 = nu0
            if allow_growth and not live[i]['frozen'] and draw(st.integers(0, 3)) == 0:
                kind = draw(st.sampled_from(['exponential', 'linear']))
                nu1 = math.exp(draw(st.floats(math.log(0.3), math.log(4.0))))
                anygrow = True
            sizes.append([nu0, nu1, kind])
            cont.append(False)
            live[i]['prev'] = (kind, nu0, nu1, T)
        mig = [[0.0] * k for _ in range(k)]
        if allow_mig and k >= 2 and draw(st.booleans()):
            for i in range(k):
                for j in range(k):
                    if i != j and not live[i]['frozen'] and not live[j]['frozen'] and draw(st.integers(0, 2)) == 0:
                        mig[i][j] = draw(st.sampled_from([0.5, 1.0, 2.5]))
                        if i > j and mig[j][i] != 0 and draw(st.booleans()):
                            mig[i][j] = mig[j][i]        # a symmetric pair
        steps.append(dict(event=ev, integrate=dict(T=T, sizes=sizes, mig=mig, cont=cont)))
    # sizes of a population continue from epoch to epoch only by chance; that is allowed (instantaneous size changes)
    kmax = max(len(s['integrate']['sizes']) for s in steps)
    lo, hi = {1: (12, 20), 2: (10, 16), 3: (10, 14), 4: (9, 11), 5: (8, 9)}[kmax]
    return dict(N0=draw(st.sampled_from([1000.0, 250.0, 12345.0])), theta=draw(st.sampled_from([1.0, 2.5])),
                pts=draw(st.integers(lo, hi)), ns=draw(st.integers(2, 3)), steps=steps)


def features(prog):
    f = dict(max_pops=1, true_split=False, ancient=0, mig=False, pulse=False, growth=False, admix=False, merge=False, remove=False, long_epoch=False, symmig=False, pulse_seq=False)
    k = 1
    for s in prog['steps']:
        ev = s['event']
        if ev:
            if ev['op'] == 'split':
                f['true_split'] = True
            if ev['op'] == 'branch' and ev.get('ancient'):
                f['ancient'] += 1
            if ev['op'] == 'pulse':
                f['pulse'] = True
                if ev.get('then'):
                    f['pulse_seq'] = True
            if ev['op'] == 'admix':
                f['admix'] = True
                f['merge'] = f['merge'] or ev['merge']
            if ev['op'] == 'remove':
                f['remove'] = True
        k = len(s['integrate']['sizes'])
        f['max_pops'] = max(f['max_pops'], k)
        if any(any(r) for r in s['integrate']['mig']):
            f['mig'] = True
            M = s['integrate']['mig']
            if any(M[i][j] != 0 and M[i][j] == M[j][i] for i in range(len(M)) for j in range(i)):
                f['symmig'] = True
        if any(z[2] != 'constant' for z in s['integrate']['sizes']):
            f['growth'] = True
        if any(c and z[2] != 'constant' for c, z in zip(s['integrate'].get('cont', []), s['integrate']['sizes'])):
            f['long_epoch'] = True
    return f


# ---------------------------------------------------------------------------------------------- native execution
def _nu_arg(nu0, nu1, kind, T):
    if kind == 'constant':
        return nu0
    if kind == 'exponential':
        return lambda t, a=nu0, b=nu1, T=T: a * (b / a) ** (t / T)
    return lambda t, a=nu0, b=nu1, T=T: a + t / T * (b - a)


def run_native(prog, return_names=False, rescale=1.0, upto=None, swipe_at=None, named=False, orders=None, gamma=0.0, h=0.5):
    """Execute the program with dadi primitives. rescale=c re-expresses it relative to a reference size c times larger.
    upto=t stops the program t time units (of 2*N0 generations) before its end (the program truncated at that time).
    A frozen (ancient-sample) population is given the size its parent had when it was sampled; that number only enters the
    time-step rule.
    swipe_at=t (only while a single population exists): the history before t time units ago is replaced by equilibrium at the size
    the population had at that time.
    gamma, h: one selection coefficient and dominance for every population (relative to the unscaled reference size).
    named=True passes deme_ids (the program's own population names) to every primitive that accepts them.
    orders: optional list with one entry per step: a permutation of that step's axes; the integration of that step is carried out
    with the axes in that order (reorder_pops before, and back afterwards). The model is the same; only the order of the directional
    sub-steps, hence round-off and splitting error, follows the given order."""
    import dadi
    from dadi import Integration, PhiManip, Numerics
    c = rescale
    xx = Numerics.default_grid(prog['pts'])
    theta = prog['theta'] / c
    ids = (lambda nm: dict(deme_ids=list(nm))) if named else (lambda nm: {})
    sel = dict(gamma=gamma / c, h=h) if gamma else {}
    phi = PhiManip.phi_1D(xx, nu=c, theta0=theta, **sel, **ids(['p0']))
    names = ['p0']
    frozen = [False]
    last_nu = [1.0]            # size of each axis at the end of the previous step (unscaled)
    counter = 1
    togo = sum(s['integrate']['T'] for s in prog['steps'])
    stop = 0.0 if upto is None else upto
    swiped = swipe_at is None
    Ts = [s['integrate']['T'] for s in prog['steps']]
    for si, s in enumerate(prog['steps']):
        togo = sum(Ts[si:])               # suffix sums, formed identically everywhere, so that boundary times compare equal
        if togo <= stop + 1e-12:
            break
        it = s['integrate']
        t_init = 0.0
        if not swiped:
            if togo - it['T'] >= swipe_at - 1e-12:
                # this whole step lies before the swipe time
                if s['event'] or len(names) != 1:
                    raise ValueError('swipe_at must fall while a single population exists')
                a, b, kind = it['sizes'][0]
                last_nu = [_size_after(a, b, kind, 1.0)]
                continue
            if s['event'] or len(names) != 1:
                raise ValueError('swipe_at must fall while a single population exists')
            a, b, kind = it['sizes'][0]
            t_init = togo - swipe_at           # part of this step that is swiped away
            # at an epoch boundary the size "at that time" is the older epoch's end size (demes' epochs are (start, end])
            nu_eq = last_nu[0] if t_init <= 1e-12 else _size_after(a, b, kind, t_init / it['T'])
            phi = PhiManip.phi_1D(xx, nu=nu_eq * c, theta0=theta)
            swiped = True
        ev = s['event']
        k = len(names)
        if ev:
            if ev['op'] in ('branch', 'split'):
                p = ev['parent']
                if ev['op'] == 'split':
                    names[p] = 'p%d' % counter
                    counter += 1
                names.append('p%d' % counter)
                counter += 1
                frozen.append(bool(ev.get('ancient')))
                last_nu.append(last_nu[p])
                if k == 1:
                    phi = PhiManip.phi_1D_to_2D(xx, phi, **ids(names))
                elif k == 2:
                    phi = [PhiManip.phi_2D_to_3D_split_1, PhiManip.phi_2D_to_3D_split_2][p](xx, phi, **ids(names))
                elif k == 3:
                    pr = [1.0 if i == p else 0.0 for i in range(3)]
                    phi = PhiManip.phi_3D_to_4D(phi, pr[0], pr[1], xx, xx, xx, xx, **ids(names))
                else:
                    pr = [1.0 if i == p else 0.0 for i in range(4)]
                    phi = PhiManip.phi_4D_to_5D(phi, pr[0], pr[1], pr[2], xx, xx, xx, xx, xx, **ids(names))
                if ev['op'] == 'split' and ev.get('children', 2) == 3:
                    # a three-way split: the third child is one more copy of the first
                    names.append('p%d' % counter)
                    counter += 1
                    frozen.append(False)
                    last_nu.append(last_nu[p])
                    kk = k + 1
                    if kk == 2:
                        phi = [PhiManip.phi_2D_to_3D_split_1, PhiManip.phi_2D_to_3D_split_2][p](xx, phi, **ids(names))
                    elif kk == 3:
                        pr = [1.0 if i == p else 0.0 for i in range(3)]
                        phi = PhiManip.phi_3D_to_4D(phi, pr[0], pr[1], xx, xx, xx, xx, **ids(names))
                    else:
                        pr = [1.0 if i == p else 0.0 for i in range(4)]
                        phi = PhiManip.phi_4D_to_5D(phi, pr[0], pr[1], pr[2], xx, xx, xx, xx, xx, **ids(names))
                nnew = len(names)
                if ev['op'] == 'split' and p != k - 1:
                    # move the first child from the parent's slot to just before the other children (axes in creation order)
                    order = [i for i in range(nnew) if i != p]
                    order.insert(k - 1, p)
                    phi = PhiManip.reorder_pops(phi, [i + 1 for i in order])
                    names = [names[i] for i in order]
                    frozen = [frozen[i] for i in order]
                    last_nu = [last_nu[i] for i in order]
            elif ev['op'] == 'admix':
                pr = ev['props']
                names.append('p%d' % counter)
                counter += 1
                frozen.append(False)
                last_nu.append(1.0)
                if k == 2:
                    phi = PhiManip.phi_2D_to_3D_admix(phi, pr[0], xx, xx, xx, **ids(names))
                elif k == 3:
                    phi = PhiManip.phi_3D_to_4D(phi, pr[0], pr[1], xx, xx, xx, xx, **ids(names))
                else:
                    phi = PhiManip.phi_4D_to_5D(phi, pr[0], pr[1], pr[2], xx, xx, xx, xx, xx, **ids(names))
                if ev['merge']:
                    for i in reversed([i for i in range(k) if pr[i] > 0]):
                        phi = PhiManip.remove_pop(phi, xx, i + 1)
                        names.pop(i)
                        frozen.pop(i)
                        last_nu.pop(i)
            elif ev['op'] == 'pulse':
                for pu in pulse_list(ev):
                    d = pu['dest']
                    f = getattr(PhiManip, {2: ['phi_2D_admix_2_into_1', 'phi_2D_admix_1_into_2'],
                                           3: ['phi_3D_admix_2_and_3_into_1', 'phi_3D_admix_1_and_3_into_2', 'phi_3D_admix_1_and_2_into_3'],
                                           4: ['phi_4D_admix_into_1', 'phi_4D_admix_into_2', 'phi_4D_admix_into_3', 'phi_4D_admix_into_4'],
                                           5: ['phi_5D_admix_into_1', 'phi_5D_admix_into_2', 'phi_5D_admix_into_3', 'phi_5D_admix_into_4',
                                               'phi_5D_admix_into_5']}[k][d])
                    phi = f(*([phi] + list(pu['props']) + [xx] * k))
            elif ev['op'] == 'remove':
                phi = PhiManip.remove_pop(phi, xx, ev['pop'] + 1)
                names.pop(ev['pop'])
                frozen.pop(ev['pop'])
                last_nu.pop(ev['pop'])
        k = len(names)
        Tfull = it['T'] * c
        part = min(it['T'], togo - stop)          # the last step may be cut short by upto
        T = part * c
        sizes = [[last_nu[i], last_nu[i], 'constant'] if frozen[i] else it['sizes'][i] for i in range(k)]
        nus = [_nu_arg(a * c, b * c, kind, Tfull) for a, b, kind in sizes]
        if k == 1:
            phi = Integration.one_pop(phi, xx, T, nu=nus[0], theta0=theta, frozen=frozen[0], initial_t=t_init * c, **sel, **ids(names))
        else:
            perm = list(orders[si]) if orders and orders[si] is not None else list(range(k))
            if perm != list(range(k)):
                phi = PhiManip.reorder_pops(phi, [i + 1 for i in perm])
            kw = {}
            for a_, i in enumerate(perm):
                kw['nu%d' % (a_ + 1)] = nus[i]
                kw['frozen%d' % (a_ + 1)] = frozen[i]
                for b_, j in enumerate(perm):
                    if i != j:
                        kw['m%d%d' % (a_ + 1, b_ + 1)] = it['mig'][i][j] / c
            f = {2: Integration.two_pops, 3: Integration.three_pops, 4: Integration.four_pops, 5: Integration.five_pops}[k]
            kw.update(ids([names[i] for i in perm]))
            if gamma:
                for a_ in range(k):
                    kw['gamma%d' % (a_ + 1)] = gamma / c
                    kw['h%d' % (a_ + 1)] = h
            phi = f(phi, xx, T, theta0=theta, **kw)
            if perm != list(range(k)):
                inv = [perm.index(i) for i in range(k)]
                phi = PhiManip.reorder_pops(phi, [i + 1 for i in inv])
        last_nu = [_size_after(a, b, kind, part / it['T']) for a, b, kind in sizes]
    fs = dadi.Spectrum.from_phi(phi, [prog['ns']] * len(names), [xx] * len(names), pop_ids=list(names))
    if return_names:
        return fs, names, frozen
    return fs


def _size_after(a, b, kind, frac):
    if kind == 'constant':
        return a
    if kind == 'exponential':
        return a * (b / a) ** frac
    return a + frac * (b - a)


# ---------------------------------------------------------------------------------------------- translation to demes
def to_demes(prog, time_units='generations', generation_time=None, scale=1.0, upto=None, listing=None):
    """Build the demes graph of the program's meaning with demes.Builder (independent of dadi's exporter).
    listing=seed: the same graph written down differently - ancestors (with their proportions), the sources of a pulse (with theirs)
    and the migrations are listed in a shuffled order (simultaneous pulses keep theirs: that order has a meaning).
    scale multiplies sizes and times and divides migration rates. Returns (graph, sampled_demes, sample_times).
    upto=t: the graph is still the whole program, but the returned samples are those of the program truncated t time units before
    its end (every live deme sampled at that time, ancient samples at their own times)."""
    import demes
    N0 = prog['N0'] * scale
    Ttot = sum(s['integrate']['T'] for s in prog['steps'])
    gen = lambda Tdadi: 2.0 * N0 * Tdadi           # generations before present for a dadi time-to-go
    tfac = 1.0 if time_units == 'generations' else generation_time
    demes_d = {}       # name -> dict(start_time, ancestors, proportions, epochs)
    order = []
    live = ['p0']
    frozen_samples = []     # (deme, time)
    counter = 1
    demes_d['p0'] = dict(start_time=math.inf, ancestors=None, proportions=None, epochs=[dict(end_time=gen(Ttot), start_size=N0)])
    order.append('p0')
    togo = Ttot
    migs, pulses = [], []
    # axis bookkeeping must mirror run_native: entries are deme names or ('ancient', deme, time)
    axes = ['p0']
    stop = 0.0 if upto is None else upto
    snap = None
    Ts = [s['integrate']['T'] for s in prog['steps']]
    for si, s in enumerate(prog['steps']):
        togo = sum(Ts[si:])
        if snap is None and togo <= stop + 1e-12:
            snap = list(axes)
        ev = s['event']
        t_now = gen(togo)
        if ev:
            if ev['op'] == 'branch':
                parent = axes[ev['parent']]
                if ev.get('ancient'):
                    axes.append(('ancient', parent, t_now))
                    counter += 1
                else:
                    name = 'p%d' % counter
                    counter += 1
                    demes_d[name] = dict(start_time=t_now, ancestors=[parent], proportions=[1.0], epochs=[])
                    order.append(name)
                    axes.append(name)
            elif ev['op'] == 'split':
                parent = axes[ev['parent']]
                nch = ev.get('children', 2)
                kids = ['p%d' % (counter + i) for i in range(nch)]
                counter += nch
                for nm in kids:
                    demes_d[nm] = dict(start_time=t_now, ancestors=[parent], proportions=[1.0], epochs=[])
                    order.append(nm)
                axes.pop(ev['parent'])
                axes += kids
            elif ev['op'] == 'admix':
                pr = ev['props']
                name = 'p%d' % counter
                counter += 1
                parents = [axes[i] for i in range(len(pr)) if pr[i] > 0]
                demes_d[name] = dict(start_time=t_now, ancestors=parents, proportions=[pr[i] for i in range(len(pr)) if pr[i] > 0], epochs=[])
                order.append(name)
                if ev['merge']:
                    axes = [axes[i] for i in range(len(pr)) if pr[i] == 0]
                axes.append(name)
            elif ev['op'] == 'pulse':
                for pu in pulse_list(ev):       # same time, listed in the order they are applied
                    d = pu['dest']
                    others = [i for i in range(len(axes)) if i != d]
                    srcs = [axes[i] for i, f in zip(others, pu['props']) if f > 0]
                    prs = [f for f in pu['props'] if f > 0]
                    pulses.append(dict(sources=srcs, dest=axes[d], proportions=prs, time=t_now))
            elif ev['op'] == 'remove':
                axes.pop(ev['pop'])
        it = s['integrate']
        end = gen(sum(Ts[si + 1:]))
        # a continued epoch is merged with its predecessor only if the step boundary stays a break point of the graph for another
        # reason (an event, another deme's epoch boundary, a migration interval); otherwise the graph would be integrated across it
        # in one call while the native program makes two, and the two would differ by the time-step error
        prev_it = prog['steps'][si - 1]['integrate'] if si > 0 else None
        contflags = list(it.get('cont') or [False] * len(axes))
        forced = ev is not None or not all(c for c, ax in zip(contflags, axes) if not isinstance(ax, tuple)) or any(any(r) for r in it['mig']) or (prev_it is not None and any(any(r) for r in prev_it['mig']))
        if not forced:
            contflags = [False] * len(axes)
        for i, ax in enumerate(axes):
            if isinstance(ax, tuple):
                continue
            a, b, kind = it['sizes'][i]
            if contflags[i] and demes_d[ax]['epochs']:
                # the same epoch goes on: extend it instead of starting a new one
                last = demes_d[ax]['epochs'][-1]
                last['end_time'] = end
                if kind != 'constant':
                    last['end_size'] = b * N0
                continue
            ep = dict(end_time=end, start_size=a * N0, end_size=b * N0, size_function=kind)
            if kind == 'constant':
                ep.pop('end_size')
                ep.pop('size_function')
            demes_d[ax]['epochs'].append(ep)
        for i, ai in enumerate(axes):
            for j, aj in enumerate(axes):
                if i != j and it['mig'][i][j] != 0:
                    migs.append(dict(source=aj, dest=ai, rate=it['mig'][i][j] / (2.0 * N0), start_time=t_now, end_time=end))
    b = demes.Builder(time_units=time_units, **({} if time_units == 'generations' else dict(generation_time=generation_time)))
    lrs = None if listing is None else np.random.RandomState(listing)
    if lrs is not None:
        migs = [migs[i] for i in lrs.permutation(len(migs))]
    for name in order:
        d = demes_d[name]
        eps = []
        for e in d['epochs']:
            e = dict(e)
            e['end_time'] *= tfac
            eps.append(e)
        kw = dict(epochs=eps)
        if d['ancestors'] is not None:
            anc, prp = list(d['ancestors']), list(d['proportions'])
            if lrs is not None and len(anc) > 1:
                o = list(lrs.permutation(len(anc)))
                anc, prp = [anc[i] for i in o], [prp[i] for i in o]
            kw.update(ancestors=anc, proportions=prp, start_time=d['start_time'] * tfac)
        b.add_deme(name, **kw)
    # equal rates in both directions over the same interval are written as one symmetric migration (demes=[a, b])
    used = set()
    for i, m in enumerate(migs):
        if i in used:
            continue
        twin = None
        for j in range(i + 1, len(migs)):
            o = migs[j]
            if j not in used and o['source'] == m['dest'] and o['dest'] == m['source'] and o['rate'] == m['rate'] \
                    and o['start_time'] == m['start_time'] and o['end_time'] == m['end_time']:
                twin = j
                break
        if twin is not None:
            used.add(twin)
            b.add_migration(demes=[m['source'], m['dest']], rate=m['rate'], start_time=m['start_time'] * tfac, end_time=m['end_time'] * tfac)
        else:
            b.add_migration(source=m['source'], dest=m['dest'], rate=m['rate'], start_time=m['start_time'] * tfac, end_time=m['end_time'] * tfac)
    for p in pulses:
        src, prp = list(p['sources']), list(p['proportions'])
        if lrs is not None and len(src) > 1:
            o = list(lrs.permutation(len(src)))
            src, prp = [src[i] for i in o], [prp[i] for i in o]
        b.add_pulse(sources=src, dest=p['dest'], proportions=prp, time=p['time'] * tfac)
    g = b.resolve()
    sampled, times = [], []
    for ax in (axes if snap is None else snap):
        if isinstance(ax, tuple):
            sampled.append(ax[1])
            times.append(ax[2] * tfac)
        else:
            sampled.append(ax)
            times.append(gen(stop) * tfac)
    return g, sampled, times
