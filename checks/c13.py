"""C13 - genotype data become the spectrum and statistics that direct counting gives."""
import atexit
import gzip
import itertools
import logging
import math
import os
import random
import shutil
import tempfile
import warnings

import numpy as np
from hypothesis import strategies as st

import dadi
from dadi import Misc
from harness.core import Registry, Violation, Reject, dadi_call, require, require_close
from harness.refs import folding, hypergeom

warnings.filterwarnings('ignore')
logging.getLogger('Spectrum_mod').setLevel(logging.ERROR)

REG = Registry(
    'C13',
    rule=('synthetic genotype matrices: 1-3 populations, 2-12 diploids each, 1-40 SNPs, missing calls (./. or, in half the VCF cases of R1, a genotyped 0/0, with DP=0 / AD=0,0 when those '
          'fields exist), FILTER values, REF/ALT incl. lower case, multi-character and multi-allelic, AA present / absent / mismatching / '
          "'|'-suffixed / lower case, chromosome names containing '_' and '.', samples absent from the popinfo file, plain and .gz VCF; "
          'emitted as VCF+popinfo and as the SNP-table format; per-call read depths (AD/DP) varying from 1 to 30 and the calc_coverage option; '
          'all projections, chunk sizes, seeds; bootstraps from chunks and from the subsampled VCF. Non-trivial = >= 2 populations or a '
          'missing call or an unusable line present. Distinct by hash of the case.'),
    assumptions=['oracle: direct counting - per usable SNP the product over populations of hypergeometric weights (math.comb), polarised '
                 'by the AA allele or folded; statistics computed SNP by SNP from the genotype matrix with formulas typed from the literature',
                 'a call with DP=0 / AD=0,0 is a missing call whatever genotype is written (the parser says so: "DP = 0 is the new method for '
                 'checking a missing allele"); such calls are written ./. or 0/0, the latter only where the subsampling path is not involved '
                 '(that path looks at DP only)'])

_TMP = None


def tmpdir():
    global _TMP
    if _TMP is None or not os.path.isdir(_TMP):
        _TMP = tempfile.mkdtemp(prefix='dadi-verif-c13-', dir=os.environ.get('DADI_VERIF_SCRATCH') or '/var/tmp')
        atexit.register(shutil.rmtree, _TMP, True)
    return _TMP


BASES = 'ACGT'
CHROMS = ['1', 'chr2', 'chr_3', 'scaf.4', 'NC_0001.1', 'X_random.v2']
POPS = ['YRI', 'CEU', 'pop_3']


@st.composite
def geno_case(draw, full=False, max_snps=40, one_pop=False):
    P = 1 if one_pop else draw(st.integers(1, 3))
    ninds = [draw(st.integers(2, 12)) for _ in range(P)]
    nsnp = draw(st.integers(1, max_snps))
    seed = draw(st.integers(0, 2 ** 31 - 1))
    return dict(P=P, ninds=ninds, nsnp=nsnp, seed=seed, miss=0.0 if full else draw(st.sampled_from([0.0, 0.05, 0.3])),
                junk=0.0 if full else draw(st.sampled_from([0.0, 0.2])), fmt=draw(st.sampled_from(['GT', 'GT:DP', 'GT:AD:DP', 'GT:AD:GQ'])),
                extra_samples=draw(st.integers(0, 2)), gz=draw(st.booleans()), nchrom=draw(st.integers(1, 3)),
                aa_mode=draw(st.sampled_from(['all', 'mixed', 'mixed', 'none'])))


class Data:
    """Synthetic data set: genotype matrix + per-SNP annotations, and the truth about which SNPs are usable."""

    def __init__(self, c):
        rs = np.random.RandomState(c['seed'])
        self.c = c
        self.P, self.ninds = c['P'], c['ninds']
        self.pops = POPS[:self.P]
        self.snps = []
        chroms = list(rs.choice(CHROMS, size=c['nchrom'], replace=False))
        pos_by_chrom = {ch: 0 for ch in chroms}
        for s in range(c['nsnp']):
            ch = chroms[s * len(chroms) // c['nsnp']]
            pos_by_chrom[ch] += int(rs.randint(1, 400))
            ref, alt = rs.choice(list(BASES), size=2, replace=False)
            third = [b for b in BASES if b not in (ref, alt)][int(rs.randint(2))]
            kind = 'ok'
            if rs.rand() < c['junk']:
                kind = rs.choice(['filter', 'indel', 'multiallelic', 'symbolic'])
            filt = rs.choice(['PASS', '.']) if kind != 'filter' else rs.choice(['q10', 'LowQual;q10'])
            ref_s, alt_s = str(ref), str(alt)
            if kind == 'indel':
                alt_s = alt_s + 'T'
            elif kind == 'multiallelic':
                alt_s = alt_s + ',' + third
            elif kind == 'symbolic':
                alt_s = '<DEL>'
            if rs.rand() < 0.2:
                ref_s, alt_s = ref_s.lower(), (alt_s.lower() if kind in ('ok', 'filter') else alt_s)
            # ancestral allele annotation
            mode = c['aa_mode']
            r = rs.rand()
            if mode == 'none' or (mode == 'mixed' and r < 0.15):
                aa, aa_field = None, None
            elif mode == 'mixed' and r < 0.3:
                aa, aa_field = None, 'AA=' + rs.choice([third, '.', 'N', '-'])
            else:
                aa = str(ref if rs.rand() < 0.5 else alt)
                txt = aa if rs.rand() < 0.7 else aa.lower()
                if rs.rand() < 0.3:
                    txt = txt + '|||'
                aa_field = rs.choice(['AA=', 'AA=', 'AA_ensembl=']) + txt
            # genotypes: per population, per individual allele pair or None
            freq = rs.beta(0.6, 0.6, size=self.P)
            gts = []
            for p in range(self.P):
                g = []
                for _ in range(self.ninds[p]):
                    if rs.rand() < c['miss']:
                        g.append(None)
                    else:
                        g.append((int(rs.rand() < freq[p]), int(rs.rand() < freq[p])))
                gts.append(g)
            self.snps.append(dict(chrom=str(ch), pos=pos_by_chrom[ch], ref=ref_s, alt=alt_s, filt=str(filt), aa=aa, aa_field=aa_field,
                                  gts=gts, usable=(kind == 'ok'), sep=str(rs.choice(['/', '|']))))
        # sample names and order (interleaved), plus samples not listed in the popinfo file
        self.samples = []
        for p in range(self.P):
            for i in range(self.ninds[p]):
                self.samples.append(('%s_s%d' % (self.pops[p], i), p, i))
        rs.shuffle(self.samples)
        self.extra = ['unlisted%d' % i for i in range(c['extra_samples'])]
        self.rs = rs
        # read depths (an independent stream, so that everything above is unchanged): one total depth per call, split between
        # the alleles for heterozygotes
        ds = np.random.RandomState((c['seed'] + 7919) % (2 ** 31))
        for s in self.snps:
            s['depth'] = [[int(ds.randint(1, 31)) for _ in range(self.ninds[p])] for p in range(self.P)]
            s['het_ref'] = [[int(ds.randint(0, 31)) for _ in range(self.ninds[p])] for p in range(self.P)]

    # ------------------------------------------------------------------ writers
    def write_vcf(self, path, popinfo_path, header_popinfo=False, zero_read=False):
        self.zero_read = zero_read
        c = self.c
        cols = [s[0] for s in self.samples] + self.extra
        lines = ['##fileformat=VCFv4.2', '##source=dadi-verif', '#CHROM\tPOS\tID\tREF\tALT\tQUAL\tFILTER\tINFO\tFORMAT\t' + '\t'.join(cols)]
        for s in self.snps:
            info = ['NS=3']
            if s['aa_field']:
                info.append(s['aa_field'])
            info.append('DB')
            calls = []
            for name, p, i in self.samples:
                g = s['gts'][p][i]
                calls.append(self._fmt(g, s['sep'], s['depth'][p][i], s['het_ref'][p][i]))
            for _ in self.extra:
                calls.append(self._fmt((1, 1), '/'))
            lines.append('\t'.join([s['chrom'], str(s['pos']), '.', s['ref'], s['alt'], '50', s['filt'], ';'.join(info), c['fmt']] + calls))
        text = '\n'.join(lines) + '\n'
        if path.endswith('.gz'):
            with gzip.open(path, 'wt') as f:
                f.write(text)
        else:
            with open(path, 'w') as f:
                f.write(text)
        with open(popinfo_path, 'w') as f:
            f.write('# population assignments\n')
            if header_popinfo:
                f.write('POP\tSAMPLE\n')
                for name, p, i in sorted(self.samples):
                    f.write('%s\t%s\n' % (self.pops[p], name))
            else:
                for name, p, i in sorted(self.samples):
                    f.write('%s %s\n' % (name, self.pops[p]))

    def _fmt(self, g, sep, depth=12, het_ref=6):
        fmt = self.c['fmt']
        if g is None:
            gt, dp, ad = '.' + sep + '.', '0', '0,0'
            if getattr(self, 'zero_read', False) and fmt != 'GT':
                # a call without a single read that the caller still wrote as a genotype (0/0 with DP=0 / AD=0,0), as older GATK
                # versions do: dadi treats zero read support as a missing call
                gt = '0' + sep + '0'
        else:
            gt = '%d%s%d' % (g[0], sep, g[1])
            nalt = g[0] + g[1]
            a = min(het_ref, depth)
            dp, ad = str(depth), {0: '%d,0' % depth, 1: '%d,%d' % (a, depth - a), 2: '0,%d' % depth}[nalt]
        if fmt == 'GT':
            return gt
        if fmt == 'GT:DP':
            return gt + ':' + dp
        if fmt == 'GT:AD:GQ':
            return gt + ':' + ad + ':30'
        return gt + ':' + ad + ':' + dp

    def write_table(self, path):
        """SNP-table format: context, outgroup context, Allele1, counts..., Allele2, counts..., identifiers."""
        lines = ['# comment line', 'Ingroup\tOutgroup\tAllele1\t' + '\t'.join(self.pops) + '\tAllele2\t' + '\t'.join(self.pops) + '\tChrom\tPosition']
        for s in self.snps:
            if not s['usable']:
                continue
            ref, alt = s['ref'].upper(), s['alt'].upper()
            a1, a2 = [], []
            for p in range(self.P):
                called = [g for g in s['gts'][p] if g is not None]
                nalt = sum(g[0] + g[1] for g in called)
                a1.append(2 * len(called) - nalt)
                a2.append(nalt)
            out = s['aa'] if s['aa'] else '-'
            lines.append('\t'.join(['-%s-' % ref, '-%s-' % out, ref] + [str(x) for x in a1] + [alt] + [str(x) for x in a2] + [s['chrom'], str(s['pos'])]))
        with open(path, 'w') as f:
            f.write('\n'.join(lines) + '\n')

    # ------------------------------------------------------------------ truth
    def usable(self, s, use_filter=True):
        return s['usable'] or (not use_filter and s['filt'] not in ('PASS', '.') and len(s['ref']) == 1 and len(s['alt']) == 1)

    def counts(self, s):
        """per population (called chromosomes, alt chromosomes)"""
        out = []
        for p in range(self.P):
            called = [g for g in s['gts'][p] if g is not None]
            out.append((2 * len(called), sum(g[0] + g[1] for g in called)))
        return out

    def expected_fs(self, projections, polarized, use_filter=True, pops=None):
        pops = list(range(self.P)) if pops is None else pops
        out = np.zeros([m + 1 for m in projections])
        nused = 0
        for s in self.snps:
            if not self.usable(s, use_filter):
                continue
            cnt = self.counts(s)
            ref, alt = s['ref'].upper(), s['alt'].upper()
            aa = s['aa'].upper() if s['aa'] else None
            is_pol = aa in (ref, alt)
            if polarized and not is_pol:
                continue
            derived_is_alt = (aa != alt) if is_pol else True
            vecs = []
            ok = True
            for k, p in enumerate(pops):
                called, nalt = cnt[p]
                hits = nalt if derived_is_alt else called - nalt
                m = projections[k]
                if called < m:
                    ok = False
                    break
                vecs.append(np.array([float(hypergeom.weight(called, m, hits, j)) for j in range(m + 1)]))
            if not ok:
                continue
            nused += 1
            v = vecs[0]
            for w in vecs[1:]:
                v = np.multiply.outer(v, w)
            out += v
        return out, nused


def _nt(c):
    return c['P'] >= 2 or c['miss'] > 0 or c['junk'] > 0


def write_inputs(case, data, tag='d', header_popinfo=False, zero_read=False):
    d = tmpdir()
    vcf = os.path.join(d, '%s_%d.vcf%s' % (tag, os.getpid(), '.gz' if case['gz'] else ''))
    pop = os.path.join(d, '%s_%d.popinfo.txt' % (tag, os.getpid()))
    data.write_vcf(vcf, pop, header_popinfo=header_popinfo, zero_read=zero_read)
    if case['gz'] and case['seed'] % 2 == 0:
        # compressed popinfo file too
        with open(pop) as f:
            txt = f.read()
        os.unlink(pop)
        pop = pop + '.gz'
        with gzip.open(pop, 'wt') as f:
            f.write(txt)
    return vcf, pop


@st.composite
def fs_case(draw):
    c = draw(geno_case())
    proj_frac = [draw(st.floats(0.1, 1.0)) for _ in range(c['P'])]
    return dict(c, proj_frac=proj_frac, polarized=draw(st.booleans()), use_filter=draw(st.sampled_from([True, True, False])),
                via=draw(st.sampled_from(['vcf', 'vcf', 'table'])), header_popinfo=draw(st.booleans()), calc_coverage=draw(st.booleans()),
                zero_read=draw(st.booleans()))


@REG.relation('R1-spectrum-from-data', strategy=fs_case, quick=(500, 16), thorough=(8000, 16))
def r1(case, rec):
    """Spectrum from VCF / SNP table = sum over usable SNPs of hypergeometric projections, polarised by AA or folded;
    total = number of usable, projectable SNPs."""
    data = Data(case)
    projections = [max(1, int(round(2 * n * f))) for n, f in zip(case['ninds'], case['proj_frac'])]
    rec.case(case, _nt(case), ['P=%d' % case['P'], case['via'], 'polarized' if case['polarized'] else 'folded', case['fmt'], 'gz' if case['gz'] else 'plain'])
    if case['via'] == 'vcf':
        vcf, pop = write_inputs(case, data, header_popinfo=case['header_popinfo'], zero_read=bool(case.get('zero_read')))
        # calc_coverage (the input of the low-coverage correction) needs allelic depths in the file
        cov = bool(case.get('calc_coverage')) and case['fmt'] in ('GT:AD:DP', 'GT:AD:GQ')
        with dadi_call('make_data_dict_vcf'):
            dd = Misc.make_data_dict_vcf(vcf, pop, filter=case['use_filter'], **(dict(calc_coverage=True) if cov else {}))
        os.unlink(vcf)
        os.unlink(pop)
        use_filter = case['use_filter']
        if cov:
            rec.label('calc_coverage')
            for s in data.snps:
                if not data.usable(s, use_filter):
                    continue
                key = '%s_%d' % (s['chrom'], s['pos'])
                require(key in dd and isinstance(dd[key].get('coverage'), dict), 'no coverage recorded for SNP %s' % key)
                for p in range(data.P):
                    # one total depth per called individual of the population, in the order of the VCF columns
                    exp_cov = [s['depth'][pp][i] for name, pp, i in data.samples if pp == p and s['gts'][pp][i] is not None]
                    got_cov = [int(v) for v in dd[key]['coverage'].get(data.pops[p], ())]
                    require(got_cov == exp_cov, 'coverage of %s in %s: %r, depths written %r' % (key, data.pops[p], got_cov, exp_cov))
    else:
        path = os.path.join(tmpdir(), 'tab_%d.txt' % os.getpid())
        data.write_table(path)
        if case['gz']:
            with open(path) as f:
                txt = f.read()
            os.unlink(path)
            path = path + '.gz'
            with gzip.open(path, 'wt') as f:
                f.write(txt)
        with dadi_call('make_data_dict'):
            dd = Misc.make_data_dict(path)
        os.unlink(path)
        use_filter = True
    exp, nused = data.expected_fs(projections, case['polarized'], use_filter)
    nus = sum(1 for s in data.snps if data.usable(s, use_filter))
    require(len(dd) == nus, 'data dictionary has %d SNPs, %d usable lines were written' % (len(dd), nus))
    with dadi_call('Spectrum.from_data_dict'):
        fs = dadi.Spectrum.from_data_dict(dd, data.pops, projections, mask_corners=False, polarized=case['polarized'])
    require(fs.shape == exp.shape, 'spectrum shape %s, expected %s' % (fs.shape, exp.shape))
    require(list(fs.pop_ids) == data.pops, 'pop_ids %r' % (fs.pop_ids,))
    got = np.asarray(np.ma.getdata(fs), float)
    if case['polarized']:
        require(not fs.folded, 'polarised spectrum flagged folded')
        require_close(got, exp, 1e-10, 'spectrum vs direct counting', rec, key='fs', atol=1e-12)
        require(abs(got.sum() - nused) <= 1e-9 * max(nused, 1), 'total %r, but %d usable SNPs can be projected' % (got.sum(), nused))
    else:
        require(bool(fs.folded), 'unpolarised spectrum not flagged folded')
        ed, em = folding.fold(exp, np.zeros(exp.shape, bool))
        ok = ~em
        require_close(got[ok], ed[ok], 1e-10, 'folded spectrum vs direct counting', rec, key='fs folded', atol=1e-12)
        require(abs(got[ok].sum() - nused) <= 1e-9 * max(nused, 1), 'folded total %r, but %d usable SNPs can be projected' % (got[ok].sum(), nused))
    # calls recorded in the dictionary are the direct counts
    for s in data.snps:
        if not data.usable(s, use_filter):
            continue
        key = '%s_%d' % (s['chrom'], s['pos'])
        require(key in dd, 'usable SNP %s missing from the data dictionary' % key)
        for p, (called, nalt) in enumerate(data.counts(s)):
            require(tuple(dd[key]['calls'][data.pops[p]]) == (called - nalt, nalt), 'calls for %s in %s: %r, direct count %r'
                    % (key, data.pops[p], dd[key]['calls'][data.pops[p]], (called - nalt, nalt)))


@st.composite
def chunk_case(draw):
    c = draw(geno_case(max_snps=30))
    return dict(c, chunk=draw(st.sampled_from([50, 137, 400, 1000, 5000])), nboot=draw(st.integers(1, 4)), bseed=draw(st.integers(0, 2 ** 31 - 1)),
                polarized=draw(st.booleans()), proj_frac=[draw(st.floats(0.3, 1.0)) for _ in range(c['P'])],
                mask_corners=draw(st.booleans()))


@REG.relation('R2-chunks-and-bootstraps', strategy=chunk_case, quick=(300, 16), thorough=(5000, 16))
def r2(case, rec):
    """fragment_data_dict partitions the SNPs by genomic chunk; chunk spectra add up to the whole; every bootstrap is a sum of
    as many chunk spectra (with repetition) as there are chunks."""
    data = Data(case)
    vcf, pop = write_inputs(case, data, tag='c')
    with dadi_call('make_data_dict_vcf'):
        dd = Misc.make_data_dict_vcf(vcf, pop)
    os.unlink(vcf)
    os.unlink(pop)
    if not dd:
        raise Reject()
    projections = [max(1, int(round(2 * n * f))) for n, f in zip(case['ninds'], case['proj_frac'])]
    rec.case(case, _nt(case), ['chunk=%d' % case['chunk'], 'chroms=%d' % case['nchrom']])
    with dadi_call('fragment_data_dict'):
        frags = Misc.fragment_data_dict(dd, case['chunk'])
    keys = [k for f in frags for k in f]
    require(sorted(keys) == sorted(dd), 'chunks do not partition the SNPs: %d keys in chunks, %d in the dictionary' % (len(keys), len(dd)))
    for f in frags:
        cell = set()
        for k in f:
            require(f[k] is dd[k] or f[k] == dd[k], 'chunk entry differs from the dictionary entry')
            chrom, posn = k.rsplit('_', 1)
            cell.add((chrom, (int(posn) - 1) // case['chunk']))
        require(len(cell) <= 1, 'a chunk mixes chromosomes or genomic windows: %r' % sorted(cell))
    mc = bool(case.get('mask_corners', False))
    with dadi_call('from_data_dict'):
        whole = dadi.Spectrum.from_data_dict(dd, data.pops, projections, mask_corners=mc, polarized=case['polarized'])
        parts = [dadi.Spectrum.from_data_dict(f, data.pops, projections, mask_corners=mc, polarized=case['polarized']) for f in frags]
    wmask = np.ma.getmaskarray(whole)
    if case['polarized']:
        emask = np.zeros(whole.shape, bool)
        if mc:
            emask.flat[0] = emask.flat[-1] = True
        require(np.array_equal(wmask, emask), 'from_data_dict(mask_corners=%r): masked entries %r' % (mc, np.argwhere(wmask != emask)[:3].tolist()))
    for p_ in parts:
        require(np.array_equal(np.ma.getmaskarray(p_), wmask), 'a chunk spectrum is masked differently from the whole-genome spectrum')
    tot = sum(np.asarray(np.ma.getdata(p), float) for p in parts)
    require_close(tot[~wmask], np.asarray(np.ma.getdata(whole), float)[~wmask], 1e-10, 'sum of chunk spectra vs the whole-genome spectrum', rec,
                  key='chunks add up', atol=1e-12)
    random.seed(case['bseed'])
    with dadi_call('bootstraps_from_dd_chunks'):
        boots = Misc.bootstraps_from_dd_chunks(frags, case['nboot'], data.pops, projections, mask_corners=mc, polarized=case['polarized'])
    require(len(boots) == case['nboot'], '%d bootstraps returned, %d requested' % (len(boots), case['nboot']))
    keep = ~wmask.ravel()
    if not keep.any():
        return                # degenerate folded spectrum (a single chromosome): nothing unmasked to compare
    # distinct chunk spectra over the unmasked entries (windows with the same content give identical spectra; repetition is allowed
    # anyway, so only the distinct ones matter)
    nchunks = len(parts)
    distinct = []
    for p_ in parts:
        a = np.asarray(np.ma.getdata(p_), float).ravel()[keep]
        if not any(np.abs(a - d).max() < 1e-12 for d in distinct):
            distinct.append(a)
    distinct.sort(key=lambda a: -a.sum())
    for b in boots:
        require(bool(b.folded) == (not case['polarized']), 'bootstrap folding status wrong')
        require(np.array_equal(np.ma.getmaskarray(b), wmask), 'bootstrap (mask_corners=%r) is masked differently from the spectra it sums: entries %r'
                % (mc, np.argwhere(np.ma.getmaskarray(b) != wmask)[:3].tolist()))
        bv = np.asarray(np.ma.getdata(b), float).ravel()[keep]
        verdict = _is_multiset_sum(bv, distinct, nchunks)
        rec.label('bootstrap decided exactly' if verdict is not None else 'bootstrap search budget exhausted (range check only)')
        if verdict is None:
            tots = [a.sum() for a in distinct]
            require(nchunks * min(tots) - 1e-9 <= bv.sum() <= nchunks * max(tots) + 1e-9, 'bootstrap total outside the range of %d-chunk sums' % nchunks)
        else:
            require(verdict, 'a bootstrap spectrum is not a sum of %d chunk spectra drawn with repetition' % nchunks)


def _is_multiset_sum(target, items, count, budget=200000):
    """Is target = sum of `count` items drawn with repetition?  Depth-first over how often each distinct item is used; items are
    non-negative, so an item can be used at most min(remaining/item) times.  True / False, or None when the node budget runs out."""
    target = np.array(target, float)
    tol = 1e-9 * (1.0 + float(np.abs(target).max()))
    nz = [a for a in items if a.max() > 0]
    has_zero = len(nz) < len(items)        # an all-zero chunk spectrum absorbs any number of draws
    nodes = [0]

    def go(i, remaining, left):
        nodes[0] += 1
        if nodes[0] > budget:
            raise OverflowError
        if i == len(nz):
            return (left == 0 or has_zero) and bool(np.abs(remaining).max() <= tol)
        a = nz[i]
        pos = a > 0
        cmax = int(min(left, np.floor(((remaining[pos] + tol) / a[pos]).min())))
        for c in range(cmax, -1, -1):
            if go(i + 1, remaining - c * a, left - c):
                return True
        return False
    try:
        return go(0, target, count)
    except OverflowError:
        return None


@st.composite
def sub_case(draw):
    c = draw(geno_case(max_snps=25))
    c['miss'] = draw(st.sampled_from([0.05, 0.3, 0.5]))
    return dict(c, sub_frac=[draw(st.floats(0.2, 1.0)) for _ in range(c['P'])], sseed=draw(st.one_of(st.none(), st.integers(0, 10 ** 6))),
                npseed=draw(st.integers(0, 2 ** 31 - 1)))


@REG.relation('R3-subsampling', strategy=sub_case, quick=(300, 16), thorough=(5000, 16))
def r3(case, rec):
    """Subsampling uses exactly the requested number of individuals per population at every kept SNP, drawn from the called
    genotypes; SNPs with too few calls are skipped, all others kept."""
    data = Data(case)
    vcf, pop = write_inputs(case, data, tag='s')
    sub = {data.pops[p]: max(1, int(round(case['ninds'][p] * case['sub_frac'][p]))) for p in range(case['P'])}
    np.random.seed(case['npseed'] % (2 ** 32 - 1))
    with dadi_call('make_data_dict_vcf(subsample)'):
        dd = Misc.make_data_dict_vcf(vcf, pop, subsample=dict(sub), seed=case['sseed'])
    os.unlink(vcf)
    os.unlink(pop)
    rec.case(case, True, ['P=%d' % case['P'], 'seeded' if case['sseed'] is not None else 'unseeded', 'miss=%s' % case['miss']])
    for s in data.snps:
        key = '%s_%d' % (s['chrom'], s['pos'])
        if not s['usable']:
            require(key not in dd, 'unusable line %s present in the subsampled dictionary' % key)
            continue
        enough = all(sum(g is not None for g in s['gts'][p]) >= sub[data.pops[p]] for p in range(case['P']))
        if not enough:
            require(key not in dd, 'SNP %s kept although a population has fewer called individuals than requested' % key)
            continue
        require(key in dd, 'SNP %s dropped although every population has enough called individuals' % key)
        for p in range(case['P']):
            k = sub[data.pops[p]]
            refc, altc = dd[key]['calls'][data.pops[p]]
            require(refc + altc == 2 * k, 'SNP %s, population %s: %d chromosomes used, requested %d individuals = %d chromosomes'
                    % (key, data.pops[p], refc + altc, k, 2 * k))
            called = [g for g in s['gts'][p] if g is not None]
            per_ind = sorted(g[0] + g[1] for g in called)
            lo, hi = sum(per_ind[:k]), sum(per_ind[-k:])
            require(lo <= altc <= hi, 'SNP %s, population %s: %d alternative alleles cannot come from %d of the called individuals (range %d..%d)'
                    % (key, data.pops[p], altc, k, lo, hi))


@st.composite
def bsub_case(draw):
    c = draw(geno_case(max_snps=25))
    c['miss'] = draw(st.sampled_from([0.0, 0.0, 0.05, 0.3]))
    c['junk'] = 0.0
    return dict(c, full=draw(st.booleans()), sub_frac=[draw(st.floats(0.3, 1.0)) for _ in range(c['P'])], nboot=draw(st.integers(1, 3)),
                chunk=draw(st.sampled_from([137, 400, 1000, 5000])), polarized=draw(st.booleans()), mask_corners=draw(st.booleans()),
                bseed=draw(st.integers(0, 2 ** 31 - 1)))


@REG.relation('R5-bootstraps-subsample-vcf', strategy=bsub_case, quick=(200, 16), thorough=(3000, 16))
def r5(case, rec):
    """bootstraps_subsample_vcf: each bootstrap is a sum of as many chunk spectra (with repetition) as there are chunks, built from
    the SNPs in which every population has at least the requested number of called individuals. With every individual requested
    and nothing missing the chunk spectra are fully determined and the bootstrap is decided exactly; otherwise its total must be a
    sum of that many chunk SNP counts."""
    data = Data(case)
    full = case['full'] and case['miss'] == 0.0
    sub = {data.pops[p]: (case['ninds'][p] if full else max(1, int(round(case['ninds'][p] * case['sub_frac'][p])))) for p in range(case['P'])}
    # SNPs that survive the subsampling (every population has at least the requested number of called individuals)
    surviving = [s for s in data.snps if s['usable'] and all(sum(g is not None for g in s['gts'][p]) >= sub[data.pops[p]] for p in range(case['P']))]
    if not surviving:
        raise Reject()          # nothing to bootstrap from
    vcf, pop = write_inputs(case, data, tag='b')
    rec.case(case, True, ['P=%d' % case['P'], 'all individuals, exact' if full else 'subsampled, totals', 'polarized' if case['polarized'] else 'folded'])
    random.seed(case['bseed'])
    np.random.seed(case['bseed'] % (2 ** 32 - 1))
    try:
        with dadi_call('bootstraps_subsample_vcf'):
            boots = Misc.bootstraps_subsample_vcf(vcf, pop, dict(sub), case['nboot'], case['chunk'], data.pops, mask_corners=case['mask_corners'],
                                                  polarized=case['polarized'])
        with dadi_call('make_data_dict_vcf / fragment_data_dict'):
            dd = Misc.make_data_dict_vcf(vcf, pop)
            # the genomic windows of the surviving SNPs as fragment_data_dict cuts them (windows without SNPs included: R2 checks
            # that function); the calls inside are not used for the subsampled case, only the SNP counts
            frags = Misc.fragment_data_dict({'%s_%d' % (s['chrom'], s['pos']): dd['%s_%d' % (s['chrom'], s['pos'])] for s in surviving}, case['chunk'])
    finally:
        for f_ in (vcf, pop):
            if os.path.exists(f_):
                os.unlink(f_)
    require(len(boots) == case['nboot'], '%d bootstraps returned, %d requested' % (len(boots), case['nboot']))
    nchunks = len(frags)
    shape = tuple(2 * sub[q] + 1 for q in data.pops)
    for b in boots:
        require(b.shape == shape, 'bootstrap shape %r, expected %r' % (b.shape, shape))
        require(bool(b.folded) == (not case['polarized']), 'bootstrap folding status wrong')
        require(list(b.pop_ids) == data.pops, 'bootstrap labels %r' % (b.pop_ids,))
    if full:
        projections = [2 * sub[q] for q in data.pops]
        parts = [dadi.Spectrum.from_data_dict(f_, data.pops, projections, mask_corners=case['mask_corners'], polarized=case['polarized']) for f_ in frags]
        wmask = np.ma.getmaskarray(parts[0])
        keep = ~wmask.ravel()
        if not keep.any():
            return
        distinct = []
        for p_ in parts:
            a = np.asarray(np.ma.getdata(p_), float).ravel()[keep]
            if not any(np.abs(a - d).max() < 1e-12 for d in distinct):
                distinct.append(a)
        distinct.sort(key=lambda a: -a.sum())
        for b in boots:
            require(np.array_equal(np.ma.getmaskarray(b), wmask), 'bootstrap (mask_corners=%r) is masked differently from the chunk spectra' % case['mask_corners'])
            verdict = _is_multiset_sum(np.asarray(np.ma.getdata(b), float).ravel()[keep], distinct, nchunks)
            require(verdict is not False, 'a bootstrap from the subsampled VCF (all individuals requested) is not a sum of %d chunk spectra' % nchunks)
    elif case['polarized'] and not case['mask_corners']:
        # a polarised spectrum counts only the SNPs whose ancestral allele is known
        has_aa = {'%s_%d' % (s_['chrom'], s_['pos']) for s_ in surviving if s_['aa'] is not None}
        counts = sorted(set(float(sum(1 for k_ in f_ if k_ in has_aa)) for f_ in frags), reverse=True)
        for b in boots:
            tot = float(np.asarray(np.ma.getdata(b), float).sum())
            require(abs(tot - round(tot)) < 1e-9, 'bootstrap total %r is not a whole number of SNPs' % tot)
            verdict = _is_multiset_sum(np.array([tot]), [np.array([c_]) for c_ in counts], nchunks)
            require(verdict is not False, 'bootstrap total %r is not a sum of %d chunk SNP counts %r' % (tot, nchunks, counts))


def tajima_D(n, S, pi):
    """Tajima (1989) eqs 28-38."""
    a1 = sum(1.0 / i for i in range(1, n))
    a2 = sum(1.0 / i ** 2 for i in range(1, n))
    b1 = (n + 1.0) / (3.0 * (n - 1))
    b2 = 2.0 * (n * n + n + 3.0) / (9.0 * n * (n - 1))
    c1 = b1 - 1.0 / a1
    c2 = b2 - (n + 2.0) / (a1 * n) + a2 / a1 ** 2
    e1 = c1 / a1
    e2 = c2 / (a1 ** 2 + a2)
    return (pi - S / a1) / math.sqrt(e1 * S + e2 * S * (S - 1))


def wc_fst(counts, ns):
    """Weir & Cockerham (1984): per-SNP a, b, c with the heterozygote term eliminated by b = 0 (random mating, no genotype data);
    counts[l][i] = derived alleles in population i at SNP l; ns[i] = chromosomes sampled. Fst = sum a / sum (a + b + c)."""
    r = len(ns)
    ns = np.array(ns, float)
    nbar = ns.mean()
    nc = (ns.sum() - (ns ** 2).sum() / ns.sum()) / (r - 1)
    A = BC = 0.0
    for row in counts:
        p = np.array(row, float) / ns
        pbar = (ns * p).sum() / ns.sum()
        s2 = (ns * (p - pbar) ** 2).sum() / ((r - 1) * nbar)
        X = pbar * (1 - pbar) - (r - 1.0) / r * s2
        hbar = 4 * nbar / (2 * nbar - 1) * X            # from b = 0
        a = nbar / nc * (s2 - (X - hbar / 4.0) / (nbar - 1))
        b = nbar / (nbar - 1) * (X - (2 * nbar - 1) / (4 * nbar) * hbar)
        cc = hbar / 2.0
        A += a
        BC += b + cc
    return A / (A + BC)


def _check_stats(fs, ks, n, tag):
    S = sum(1 for k in ks if 0 < k < n)
    pi = sum(k * (n - k) / (n * (n - 1) / 2.0) for k in ks)
    thL = sum(k for k in ks if 0 < k < n) / (n - 1.0)
    a1 = sum(1.0 / i for i in range(1, n))
    with dadi_call('Spectrum statistics'):
        gS, gpi, gW, gL = float(fs.S()), float(fs.pi()), float(fs.Watterson_theta()), float(fs.theta_L())
    require(abs(gS - S) < 1e-9, 'S()%s = %r, %d segregating sites in the genotype matrix' % (tag, gS, S))
    require(abs(gpi - pi) < 1e-9 * max(pi, 1), 'pi()%s = %r, mean pairwise differences from the genotype matrix = %r' % (tag, gpi, pi))
    require(abs(gW - S / a1) < 1e-9 * max(S, 1), "Watterson_theta()%s = %r, expected %r" % (tag, gW, S / a1))
    require(abs(gL - thL) < 1e-9 * max(thL, 1), 'theta_L()%s = %r, expected %r' % (tag, gL, thL))
    if S >= 2:
        eD = tajima_D(n, S, pi)
        with dadi_call('Tajima_D'):
            gD = float(fs.Tajima_D())
        require(abs(gD - eD) < 1e-8 * max(abs(eD), 1), "Tajima_D()%s = %r, Tajima's formula from (n=%d, S=%d, pi=%r) gives %r" % (tag, gD, n, S, pi, eD))


@st.composite
def stat_case(draw):
    c = draw(geno_case(full=True, max_snps=40))
    c['aa_mode'] = 'all'
    # frequency classes the user masks before asking for the statistics (seed C13h): every statistic must leave out exactly
    # the SNPs of those classes, as S() = sum of the unmasked entries does
    c['mask_classes'] = draw(st.lists(st.integers(0, 40), max_size=3)) if draw(st.booleans()) else []
    return c


@REG.relation('R4-statistics', strategy=stat_case, quick=(400, 16), thorough=(6000, 16))
def r4(case, rec):
    """S, pi, Watterson's theta, theta_L, Tajima's D (per population) and Fst (between populations) computed from the spectrum of
    fully-called data equal the same statistics computed SNP by SNP from the genotype matrix; with frequency classes masked by the
    user, every per-population statistic equals the one computed from the SNPs outside those classes (one SNP set for all of them)."""
    data = Data(case)
    vcf, pop = write_inputs(case, data, tag='t')
    with dadi_call('make_data_dict_vcf'):
        dd = Misc.make_data_dict_vcf(vcf, pop)
    os.unlink(vcf)
    os.unlink(pop)
    rec.case(case, case['P'] >= 2, ['P=%d' % case['P']] + (['masked frequency classes'] if case.get('mask_classes') else []))
    ns = [2 * n for n in case['ninds']]
    derived = []
    for s in data.snps:
        cnt = data.counts(s)
        aa = s['aa'].upper()
        derived.append([(nalt if aa == s['ref'].upper() else called - nalt) for called, nalt in cnt])
    for p in range(case['P']):
        with dadi_call('from_data_dict'):
            fs = dadi.Spectrum.from_data_dict(dd, [data.pops[p]], [ns[p]], mask_corners=True, polarized=True)
        n = ns[p]
        ks = [row[p] for row in derived]
        _check_stats(fs, ks, n, '')
        cls = sorted(set(1 + k % (n - 1) for k in case.get('mask_classes') or [])) if n >= 3 else []
        if len(cls) == n - 1:
            cls = cls[:-1]          # a spectrum with every interior class masked has no statistics (its sum is `masked`)
        if cls:
            fsm = fs.copy()
            fsm.mask[cls] = True
            _check_stats(fsm, [k for k in ks if k not in cls], n, ' with frequency classes %s masked' % cls)
            require(np.array_equal(np.ma.getdata(fsm), np.ma.getdata(fs)) and all(fsm.mask[cls]) and int(fsm.mask.sum()) == len(cls) + 2,
                    'statistics modified the spectrum they were computed from')
    if case['P'] >= 2:
        with dadi_call('from_data_dict'):
            fs = dadi.Spectrum.from_data_dict(dd, data.pops, ns, mask_corners=True, polarized=True)
        seg = [row for row in derived if 0 < sum(row) < sum(ns)]
        if len(seg) >= 1:
            eF = wc_fst(seg, ns)
            with dadi_call('Fst'):
                gF = float(fs.Fst())
            if np.isfinite(eF):
                require(abs(gF - eF) < 1e-9 * max(abs(eF), 1), 'Fst() = %r, Weir-Cockerham from the genotype matrix = %r' % (gF, eF))
        # segregating sites of the joint spectrum
        require(abs(float(fs.S()) - len(seg)) < 1e-9, 'S() of the joint spectrum = %r, %d sites segregate in the pooled sample' % (float(fs.S()), len(seg)))
