"""C04 - mass leaves only via fixation/loss: frozen and isolated marginals are exact."""
import itertools
import math

import numpy as np
from hypothesis import strategies as st

import dadi
from dadi import Integration
from harness import grids as G
from harness import drivers as D
from harness.core import Registry, Violation, Reject, dadi_call, require, require_close
from harness.refs import fd_scheme as fd

EXHAUSTIVE_NOTE = 'R4 enumerates every (frozen population, incident migration rate) pair in 2-5 dimensions (80 pairs), each as a constant and as a function of time'

REG = Registry(
    'C04',
    rule=('cases = (dimension 2-5, shared grid, non-negative density, nu in [1e-2,1e2], gamma in [-40,40], h in [0,1], any non-empty '
          'proper set of frozen populations / any proper subset S of populations, nomut flags in 2-D, constant and function-valued '
          'parameters, 1-8 time steps). Non-trivial = dimension>=3 or h!=0.5 or function-valued parameters. Distinct by (dimension, '
          'flags/subset, parameters) hash.'),
    assumptions=['identities derived from the scheme: line sums with trapezoid weights are conserved by every sweep except at the '
                 'absorbing corner entries; interior rows do not reference boundary unknowns when m=0 and gamma=0',
                 'R3 replays each step with the C02 dense reference to obtain the corner outflow'])

EPS = np.finfo(float).eps


def marginal(phi, grids, keep):
    """trapezoid marginal density onto the axes in `keep` (sorted)."""
    out = np.asarray(phi, float)
    for a in range(out.ndim - 1, -1, -1):
        if a not in keep:
            out = np.tensordot(out, fd.trapz_weights(grids[a]), axes=([a], [0]))
    return out


def interior(arr):
    return arr[tuple(slice(1, -1) for _ in range(arr.ndim))]


@st.composite
def frozen_case(draw):
    nd = draw(st.sampled_from([2, 3, 4, 5]))
    maxL = {2: 12, 3: 8, 4: 6, 5: 5}[nd]
    L = draw(st.integers(4, maxL))
    spec = draw(G.grid_spec(min_pts=L, max_pts=L, kinds=('uniform', 'exponential', 'random')))
    frozen = [draw(st.booleans()) for _ in range(nd)]
    if not any(frozen):
        frozen[draw(st.integers(0, nd - 1))] = True
    nus = [draw(G.loguniform(1e-2, 1e2)) for _ in range(nd)]
    ms = [[0.0 if (i == j or frozen[i] or frozen[j]) else draw(st.one_of(st.just(0.0), st.floats(0, 20.0))) for j in range(nd)] for i in range(nd)]
    gammas = [draw(st.one_of(st.just(0.0), st.floats(-40.0, 40.0))) for _ in range(nd)]
    hs = [draw(st.one_of(st.just(0.5), st.floats(0.0, 1.0))) for _ in range(nd)]
    return dict(nd=nd, L=L, grid=spec, phi_seed=draw(st.integers(0, 2 ** 31 - 1)), phi_kind=draw(st.sampled_from(G.PHI_KINDS)),
                nus=nus, ms=ms, gammas=gammas, hs=hs, theta0=draw(st.floats(0.0, 10.0)), frozen=frozen,
                nomut=[draw(st.booleans()), draw(st.booleans())] if nd == 2 else None,
                as_func=draw(st.booleans()), steps=draw(st.floats(0.3, 8.0)))


def run_driver(case, phi, xx, T, nd=None, **over):
    nd = nd or case['nd']
    wrap = (lambda v: v if v == 0 else D.as_fn(v)) if case.get('as_func') else None
    kw = D.driver_kwargs(nd, over.get('nus', case['nus']), over.get('ms', case['ms']), over.get('gammas', case['gammas']),
                         over.get('hs', case['hs']), over.get('theta0', case['theta0']), frozen=over.get('frozen', case.get('frozen')),
                         nomut=over.get('nomut', case.get('nomut')), wrap=wrap)
    f = D.DRIVERS[nd]
    with dadi_call(f.__name__, driver=f.__name__):
        return np.asarray(f(phi.copy(), xx, T, **kw))


def _labels(case):
    return ['dim=%d' % case['nd'], 'func-params' if case.get('as_func') else 'const-params']


@REG.relation('R1-frozen-marginal', strategy=frozen_case, quick=(900, 16), thorough=(20000, 16))
def r1(case, rec):
    """A frozen population's marginal density is unchanged at every interior frequency, whatever the other populations do."""
    nd, L = case['nd'], case['L']
    xx = G.make_grid(case['grid'])
    phi = G.make_phi((L,) * nd, case['phi_seed'], case['phi_kind'])
    active = [i for i in range(nd) if not case['frozen'][i]]
    T = case['steps'] * Integration.timescale_factor / D.max_rate([case['nus'][i] for i in active] or [1.0],
                                                                  [case['ms'][i] for i in active] or [[0.0]],
                                                                  [case['gammas'][i] for i in active] or [0.0])
    nt = nd >= 3 or any(h != 0.5 for h in case['hs']) or case['as_func']
    rec.case(case, nt, _labels(case) + ['frozen=%d' % sum(case['frozen'])])
    out = run_driver(case, phi, xx, T)
    require(np.isfinite(out).all(), 'non-finite density')
    fr = [k for k in range(nd) if case['frozen'][k]]
    for k in fr:
        before = marginal(phi, [xx] * nd, [k])[1:-1]
        after = marginal(out, [xx] * nd, [k])[1:-1]
        require_close(after, before, 1e-10, 'marginal density of frozen population %d' % (k + 1), rec, key='frozen marginal',
                      atol=1e-13 * np.abs(phi).max(), driver=D.DRIVERS[nd].__name__)
    # joint marginal over all frozen populations as well
    if len(fr) >= 2:
        before = interior(marginal(phi, [xx] * nd, fr))
        after = interior(marginal(out, [xx] * nd, fr))
        require_close(after, before, 1e-10, 'joint marginal density of the frozen populations', rec, key='frozen joint marginal',
                      atol=1e-13 * np.abs(phi).max())
    # all populations but one frozen: the density along each line of the active population evolves, but a fully frozen
    # configuration (T>0, every other population frozen) never touches entries of other lines' sums: covered above.


@st.composite
def subset_case(draw):
    nd = draw(st.sampled_from([2, 3, 4, 5]))
    maxL = {2: 12, 3: 8, 4: 6, 5: 5}[nd]
    L = draw(st.integers(4, maxL))
    spec = draw(G.grid_spec(min_pts=L, max_pts=L, kinds=('uniform', 'exponential', 'random')))
    k = draw(st.integers(1, nd - 1))
    S = sorted(draw(st.permutations(range(nd)))[:k])
    nus = [draw(G.loguniform(1e-2, 1e2)) for _ in range(nd)]
    sync = draw(st.sampled_from(['smallest-nu-in-S', 'single-step', 'old-timestep']))
    return dict(nd=nd, L=L, grid=spec, phi_seed=draw(st.integers(0, 2 ** 31 - 1)), phi_kind=draw(st.sampled_from(G.PHI_KINDS)),
                nus=nus, S=S, theta0=draw(st.floats(0.0, 10.0)), as_func=draw(st.booleans()), steps=draw(st.floats(0.3, 6.0)),
                sync=sync, frozen_S=[draw(st.sampled_from([False, False, True])) for _ in S])


@REG.relation('R2-isolated-subsets', strategy=subset_case, quick=(900, 16), thorough=(20000, 16))
def r2(case, rec):
    """Without migration and selection, the marginal density of any subset S evolves at interior frequencies exactly as if S were
    integrated alone with the same time steps."""
    nd, L, S = case['nd'], case['L'], list(case['S'])
    xx = G.make_grid(case['grid'])
    phi = G.make_phi((L,) * nd, case['phi_seed'], case['phi_kind'])
    nus = list(case['nus'])
    if case['sync'] == 'smallest-nu-in-S':
        # the time step is set by the smallest population: put it inside S
        j = int(np.argmin(nus))
        if j not in S:
            nus[S[0]], nus[j] = nus[j], nus[S[0]]
    zeros = [[0.0] * nd for _ in range(nd)]
    frozen = [False] * nd
    for s, f in zip(S, case['frozen_S']):
        frozen[s] = f
    if all(frozen[s] for s in S) and len(S) == nd:
        raise Reject()
    unfrozen_nus = [nus[i] for i in range(nd) if not frozen[i]]
    dt = Integration.timescale_factor / (0.25 / min(unfrozen_nus))
    if case['sync'] == 'single-step':
        T = min(case['steps'], 1.0) * dt * 0.999
    else:
        T = case['steps'] * dt
    if case['sync'] == 'smallest-nu-in-S' and frozen[int(np.argmin(nus))]:
        frozen[int(np.argmin(nus))] = False
    nt = nd >= 3 or case['as_func']
    rec.case(case, nt, _labels(case) + ['|S|=%d' % len(S), case['sync']])
    full = dict(case, ms=zeros, gammas=[0.0] * nd, hs=[0.5] * nd, nus=nus, frozen=frozen, nomut=None)
    sub_phi = marginal(phi, [xx] * nd, S)
    ns = len(S)
    sub = dict(case, nd=ns, ms=[[0.0] * ns for _ in range(ns)], gammas=[0.0] * ns, hs=[0.5] * ns, nus=[nus[s] for s in S],
               frozen=[frozen[s] for s in S], nomut=None)
    with D.timescale(old=(case['sync'] == 'old-timestep')):
        if case['sync'] == 'old-timestep':
            T = case['steps'] * Integration.old_timescale_factor * (xx[1] - xx[0])
        out_full = run_driver(full, phi, xx, T)
        if ns == 1 and sub['frozen'][0]:
            out_sub = sub_phi.copy()
        else:
            out_sub = run_driver(sub, sub_phi, xx, T, nd=ns)
    got = interior(marginal(out_full, [xx] * nd, S))
    exp = interior(out_sub)
    require_close(got, exp, 1e-10, 'marginal over populations %s of the %d-population integration vs integrating the marginal alone'
                  % ([s + 1 for s in S], nd), rec, key='isolated marginal', atol=1e-13 * max(np.abs(sub_phi).max(), 1e-300),
                  driver=D.DRIVERS[nd].__name__)


@st.composite
def mass_case(draw):
    nd = draw(st.sampled_from([1, 2, 3, 4, 5]))
    maxL = {1: 20, 2: 10, 3: 7, 4: 5, 5: 4}[nd]
    L = draw(st.integers(4, maxL))
    spec = draw(G.grid_spec(min_pts=L, max_pts=L, kinds=('uniform', 'exponential', 'random')))
    frozen = [draw(st.sampled_from([False, False, True])) for _ in range(nd)] if nd > 1 else [False]
    if all(frozen):
        frozen[0] = False
    nus = [draw(G.loguniform(1e-2, 1e2)) for _ in range(nd)]
    ms = [[0.0 if (i == j or frozen[i] or frozen[j]) else draw(st.one_of(st.just(0.0), st.floats(0, 20.0))) for j in range(nd)] for i in range(nd)]
    gammas = [draw(st.one_of(st.just(0.0), st.floats(-40.0, 40.0))) for _ in range(nd)]
    hs = [draw(st.one_of(st.just(0.5), st.floats(0.0, 1.0))) for _ in range(nd)]
    return dict(nd=nd, L=L, grid=spec, phi_seed=draw(st.integers(0, 2 ** 31 - 1)), phi_kind=draw(st.sampled_from(G.PHI_KINDS + ['zeros'])),
                nus=nus, ms=ms, gammas=gammas, hs=hs, theta0=draw(st.floats(0.0, 10.0)), frozen=frozen,
                nomut=[draw(st.booleans()), draw(st.booleans())] if nd == 2 else None,
                as_func=draw(st.booleans()), nsteps=draw(st.integers(1, 3 if nd <= 3 else 1)), frac=draw(st.floats(0.1, 1.0)))


@REG.relation('R3-mass-balance', strategy=mass_case, quick=(900, 16), thorough=(20000, 16))
def r3(case, rec):
    """Total mass after = mass before + mutation influx (non-frozen, non-nomut populations only) - outflow at the all-lost and
    all-fixed corner entries; starting from an empty density nothing appears at interior frequencies of frozen/nomut populations."""
    nd, L = case['nd'], case['L']
    xx = G.make_grid(case['grid'])
    grids = [xx] * nd
    phi = G.make_phi((L,) * nd, case['phi_seed'], case['phi_kind'])
    active = [i for i in range(nd) if not case['frozen'][i]]
    dt = Integration.timescale_factor / D.max_rate([case['nus'][i] for i in active], [case['ms'][i] for i in active],
                                                  [case['gammas'][i] for i in active])
    # replicate the step sequence: full steps of dt_true then a remainder; choose T from my own bound so that the true dt >= dt
    dt_true = min(Integration._compute_dt(np.diff(xx), case['nus'][i], [case['ms'][i][j] for j in range(nd) if j != i] or [0],
                                          case['gammas'][i], case['hs'][i]) for i in range(nd)) if nd > 1 else \
        Integration._compute_dt(np.diff(xx), case['nus'][0], [0], case['gammas'][0], case['hs'][0])
    T = (case['nsteps'] - 1 + case['frac']) * dt_true * 0.999
    nt = nd >= 3 or any(h != 0.5 for h in case['hs']) or case['as_func']
    rec.case(case, nt, _labels(case) + ['steps=%d' % case['nsteps'], 'frozen' if any(case['frozen']) else 'nofrozen',
                                       'nomut' if case['nomut'] and any(case['nomut']) else 'mut'])
    out = run_driver(case, phi, xx, T)
    # reference replay for influx and outflow
    skip = [k for k in range(nd) if case['frozen'][k] or (case['nomut'] and case['nomut'][k])]
    cur = phi.copy()
    t = 0.0
    influx = 0.0
    outflow = 0.0
    nmut = nd - len(skip)
    while t < T:
        this_dt = min(dt_true, T - t)
        cur = fd.inject(cur, grids, this_dt, case['theta0'], skip=skip)
        influx += nmut * this_dt * case['theta0'] / 2.0 / xx[1]
        for ax in range(nd):
            if case['frozen'][ax]:
                continue
            ms = [case['ms'][ax][j] for j in range(nd) if j != ax]
            cur, info = fd.step_axis(cur, grids, ax, case['nus'][ax], ms, case['gammas'][ax], case['hs'][ax], this_dt, False)
            outflow += info['outflow']
        t += this_dt
    m0, m1 = fd.mass(phi, grids), fd.mass(out, grids)
    scale = abs(m0) + abs(influx) + abs(outflow) + 1e-300
    bal = m0 + influx - outflow
    rec.err('mass balance', abs(m1 - bal) / scale)
    require(abs(m1 - bal) <= 1e-8 * scale,
            'total mass %.12g after integration, but mass before (%.12g) + mutation influx (%.6g) - corner outflow (%.6g) = %.12g'
            % (m1, m0, influx, outflow, bal), driver=D.DRIVERS[nd].__name__)
    # the reference's own balance is exact (sanity of the oracle)
    mref = fd.mass(cur, grids)
    if abs(mref - bal) > 1e-10 * scale:
        raise RuntimeError('reference mass balance broken: %r vs %r' % (mref, bal))
    # nothing appears for frozen / nomut populations
    if case['phi_kind'] == 'zeros' and not any(any(r) for r in case['ms']):
        for k in range(nd):
            if case['frozen'][k] or (case['nomut'] and case['nomut'][k] and case['gammas'][k] == 0):
                sl = [slice(None)] * nd
                sl[k] = slice(1, -1)
                mx = np.abs(out[tuple(sl)]).max()
                require(mx == 0.0, 'population %d is %s yet density %.3e appeared at its interior frequencies from an empty start'
                        % (k + 1, 'frozen' if case['frozen'][k] else 'nomut', mx), driver=D.DRIVERS[nd].__name__)


def r4_enum(tier, shard, nshards, seed):
    n = 0
    for nd in (2, 3, 4, 5):
        for k in range(nd):
            for i in range(nd):
                for j in range(nd):
                    if i == j or k not in (i, j):
                        continue
                    for as_func in (False, True):
                        if n % nshards == shard:
                            yield dict(nd=nd, frozen=k, i=i, j=j, as_func=as_func, seed=seed % 1000 + n)
                        n += 1


@REG.relation('R4-frozen-with-migration-rejected', enum=r4_enum, quick=(160, 4), thorough=(160, 4))
def r4(case, rec):
    """A frozen population with non-zero migration to or from it is rejected with ValueError (every pair, 2-5 populations)."""
    nd, k, i, j = case['nd'], case['frozen'], case['i'], case['j']
    rs = np.random.RandomState(case['seed'])
    L = 4
    xx = np.linspace(0, 1, L)
    phi = rs.uniform(0, 1, (L,) * nd)
    kw = {'frozen%d' % (k + 1): True}
    val = float(rs.uniform(0.01, 5.0))
    kw['m%d%d' % (i + 1, j + 1)] = (lambda t, v=val: v) if case['as_func'] else val
    # other flags random, other rates zero
    for q in range(nd):
        if q != k and rs.rand() < 0.3:
            kw['frozen%d' % (q + 1)] = True
        kw['nu%d' % (q + 1)] = float(rs.uniform(0.1, 10))
    rec.case(case, True, ['dim=%d' % nd, 'func' if case['as_func'] else 'const'])
    before = phi.copy()
    try:
        D.DRIVERS[nd](phi, xx, 0.01, **kw)
    except ValueError:
        require(np.array_equal(phi, before), 'input density modified before the rejection')
        return
    except Exception as e:
        raise Violation('frozen%d with m%d%d raised %s, not ValueError: %s' % (k + 1, i + 1, j + 1, type(e).__name__, e))
    raise Violation('%s accepted frozen%d=True together with m%d%d=%g' % (D.DRIVERS[nd].__name__, k + 1, i + 1, j + 1, val),
                    pair='frozen%d/m%d%d' % (k + 1, i + 1, j + 1))
