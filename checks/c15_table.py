"""Nesting table for C15, written from the models' docstrings / documented parameter lists.

E(complex, simple, kind, {complex_param: expression over the SIMPLE model's parameter names}) - complex parameters that are not
listed take the simple model's parameter of the same name. kinds: 'm=0' zero migration, 'T=0' zero-length epoch, 'm12=m21' equal
asymmetric rates, 'gamma=0' zero selection, 'gamma1=gamma2' equal selection, 'reparam' documented re-parameterisation of the same
scenario (e.g. the vicariance models: nu1 = 1-s, nu2 = s), 'f=0' zero admixture proportion.
"""

EDGES = []


def E(cx, sm, kind, mapping=None):
    EDGES.append((cx, sm, kind, mapping or {}))


# ------------------------------------------------------------------ one population
E('D1.two_epoch', 'D1.snm_1d', 'T=0', {'nu': 2.0, 'T': 0})
E('D1.growth', 'D1.snm_1d', 'T=0', {'nu': 2.0, 'T': 0})
E('D1.bottlegrowth_1d', 'D1.snm_1d', 'T=0', {'nuB': 0.5, 'nuF': 2.0, 'T': 0})
E('D1.three_epoch', 'D1.two_epoch', 'T=0', {'nuB': 'nu', 'nuF': 1.7, 'TB': 'T', 'TF': 0})
E('D1.three_epoch', 'D1.two_epoch', 'T=0', {'nuB': 0.6, 'nuF': 'nu', 'TB': 0, 'TF': 'T'})

# ------------------------------------------------------------------ two populations, Portik family
E('D2.no_mig', 'D2.snm_2d', 'T=0', {'nu1': 1.3, 'nu2': 0.7, 'T': 0})
E('D2.sym_mig', 'D2.no_mig', 'm=0', {'m': 0})
E('D2.asym_mig', 'D2.sym_mig', 'm12=m21', {'m12': 'm', 'm21': 'm'})
E('D2.asym_mig', 'D2.no_mig', 'm=0', {'m12': 0, 'm21': 0})
E('D2.anc_sym_mig', 'D2.sym_mig', 'T=0', {'T1': 'T', 'T2': 0})
E('D2.anc_sym_mig', 'D2.no_mig', 'T=0', {'m': 1.3, 'T1': 0, 'T2': 'T'})
E('D2.anc_asym_mig', 'D2.anc_sym_mig', 'm12=m21', {'m12': 'm', 'm21': 'm'})
E('D2.anc_asym_mig', 'D2.asym_mig', 'T=0', {'T1': 'T', 'T2': 0})
E('D2.sec_contact_sym_mig', 'D2.sym_mig', 'T=0', {'T1': 0, 'T2': 'T'})
E('D2.sec_contact_sym_mig', 'D2.no_mig', 'T=0', {'m': 1.3, 'T1': 'T', 'T2': 0})
E('D2.sec_contact_asym_mig', 'D2.sec_contact_sym_mig', 'm12=m21', {'m12': 'm', 'm21': 'm'})
E('D2.sec_contact_asym_mig', 'D2.asym_mig', 'T=0', {'T1': 0, 'T2': 'T'})
E('D2.no_mig_size', 'D2.no_mig', 'T=0', {'nu1a': 'nu1', 'nu2a': 'nu2', 'nu1b': 0.7, 'nu2b': 1.9, 'T1': 'T', 'T2': 0})
E('D2.no_mig_size', 'D2.no_mig', 'T=0', {'nu1a': 0.7, 'nu2a': 1.9, 'nu1b': 'nu1', 'nu2b': 'nu2', 'T1': 0, 'T2': 'T'})
E('D2.sym_mig_size', 'D2.no_mig_size', 'm=0', {'m': 0})
E('D2.sym_mig_size', 'D2.sym_mig', 'T=0', {'nu1a': 'nu1', 'nu2a': 'nu2', 'nu1b': 0.7, 'nu2b': 1.9, 'T1': 'T', 'T2': 0})
E('D2.sym_mig_size', 'D2.sym_mig', 'T=0', {'nu1a': 0.7, 'nu2a': 1.9, 'nu1b': 'nu1', 'nu2b': 'nu2', 'T1': 0, 'T2': 'T'})
E('D2.asym_mig_size', 'D2.sym_mig_size', 'm12=m21', {'m12': 'm', 'm21': 'm'})
E('D2.asym_mig_size', 'D2.asym_mig', 'T=0', {'nu1a': 'nu1', 'nu2a': 'nu2', 'nu1b': 0.7, 'nu2b': 1.9, 'T1': 'T', 'T2': 0})
E('D2.asym_mig_size', 'D2.asym_mig', 'T=0', {'nu1a': 0.7, 'nu2a': 1.9, 'nu1b': 'nu1', 'nu2b': 'nu2', 'T1': 0, 'T2': 'T'})
E('D2.anc_sym_mig_size', 'D2.no_mig_size', 'm=0', {'m': 0})
E('D2.anc_sym_mig_size', 'D2.sym_mig', 'T=0', {'nu1a': 'nu1', 'nu2a': 'nu2', 'nu1b': 0.7, 'nu2b': 1.9, 'T1': 'T', 'T2': 0})
E('D2.anc_sym_mig_size', 'D2.no_mig', 'T=0', {'nu1a': 0.7, 'nu2a': 1.9, 'nu1b': 'nu1', 'nu2b': 'nu2', 'm': 1.1, 'T1': 0, 'T2': 'T'})
E('D2.anc_asym_mig_size', 'D2.anc_sym_mig_size', 'm12=m21', {'m12': 'm', 'm21': 'm'})
E('D2.anc_asym_mig_size', 'D2.asym_mig', 'T=0', {'nu1a': 'nu1', 'nu2a': 'nu2', 'nu1b': 0.7, 'nu2b': 1.9, 'T1': 'T', 'T2': 0})
E('D2.sec_contact_sym_mig_size', 'D2.no_mig_size', 'm=0', {'m': 0})
E('D2.sec_contact_sym_mig_size', 'D2.sym_mig', 'T=0', {'nu1a': 0.7, 'nu2a': 1.9, 'nu1b': 'nu1', 'nu2b': 'nu2', 'T1': 0, 'T2': 'T'})
E('D2.sec_contact_sym_mig_size', 'D2.no_mig', 'T=0', {'nu1a': 'nu1', 'nu2a': 'nu2', 'nu1b': 0.7, 'nu2b': 1.9, 'm': 1.1, 'T1': 'T', 'T2': 0})
E('D2.sec_contact_asym_mig_size', 'D2.sec_contact_sym_mig_size', 'm12=m21', {'m12': 'm', 'm21': 'm'})
E('D2.sec_contact_asym_mig_size', 'D2.asym_mig', 'T=0', {'nu1a': 0.7, 'nu2a': 1.9, 'nu1b': 'nu1', 'nu2b': 'nu2', 'T1': 0, 'T2': 'T'})
E('D2.sym_mig_twoepoch', 'D2.sym_mig', 'T=0', {'m1': 'm', 'm2': 2.2, 'T1': 'T', 'T2': 0})
E('D2.sym_mig_twoepoch', 'D2.sym_mig', 'T=0', {'m1': 2.2, 'm2': 'm', 'T1': 0, 'T2': 'T'})
E('D2.sym_mig_twoepoch', 'D2.anc_sym_mig', 'm=0', {'m1': 'm', 'm2': 0})
E('D2.sym_mig_twoepoch', 'D2.sec_contact_sym_mig', 'm=0', {'m1': 0, 'm2': 'm'})
E('D2.asym_mig_twoepoch', 'D2.sym_mig_twoepoch', 'm12=m21', {'m12a': 'm1', 'm21a': 'm1', 'm12b': 'm2', 'm21b': 'm2'})
E('D2.asym_mig_twoepoch', 'D2.asym_mig', 'T=0', {'m12a': 'm12', 'm21a': 'm21', 'm12b': 0.4, 'm21b': 2.6, 'T1': 'T', 'T2': 0})
E('D2.asym_mig_twoepoch', 'D2.asym_mig', 'T=0', {'m12a': 0.4, 'm21a': 2.6, 'm12b': 'm12', 'm21b': 'm21', 'T1': 0, 'T2': 'T'})
E('D2.asym_mig_twoepoch', 'D2.anc_asym_mig', 'm=0', {'m12a': 'm12', 'm21a': 'm21', 'm12b': 0, 'm21b': 0})
E('D2.asym_mig_twoepoch', 'D2.sec_contact_asym_mig', 'm=0', {'m12a': 0, 'm21a': 0, 'm12b': 'm12', 'm21b': 'm21'})
E('D2.sec_contact_sym_mig_three_epoch', 'D2.sec_contact_sym_mig', 'T=0', {'T3': 0})
E('D2.sec_contact_sym_mig_three_epoch', 'D2.anc_sym_mig', 'T=0', {'T1': 0, 'T2': 'T1', 'T3': 'T2'})
E('D2.sec_contact_sym_mig_three_epoch', 'D2.sec_contact_asym_mig_three_epoch', 'm12=m21', None)   # reversed below
E('D2.sec_contact_sym_mig_size_three_epoch', 'D2.sec_contact_sym_mig_size', 'T=0', {'T3': 0})
E('D2.sec_contact_sym_mig_size_three_epoch', 'D2.anc_sym_mig', 'T=0', {'nu1a': 0.7, 'nu2a': 1.9, 'nu1b': 'nu1', 'nu2b': 'nu2', 'T1': 0, 'T2': 'T1', 'T3': 'T2'})
E('D2.sec_contact_asym_mig_size_three_epoch', 'D2.sec_contact_sym_mig_size_three_epoch', 'm12=m21', {'m12': 'm', 'm21': 'm'})
E('D2.sec_contact_asym_mig_size_three_epoch', 'D2.sec_contact_asym_mig_size', 'T=0', {'T3': 0})
# vicariance / founder families: documented sizes nu1 = 1-s, nu2 = s
E('D2.no_mig', 'D2.vic_no_mig', 'reparam', {'nu1': '1-s', 'nu2': 's'})
E('D2.anc_sym_mig', 'D2.vic_anc_sym_mig', 'reparam', {'nu1': '1-s', 'nu2': 's'})
E('D2.anc_asym_mig', 'D2.vic_anc_asym_mig', 'reparam', {'nu1': '1-s', 'nu2': 's'})
E('D2.sec_contact_sym_mig', 'D2.vic_sec_contact_sym_mig', 'reparam', {'nu1': '1-s', 'nu2': 's'})
E('D2.sec_contact_asym_mig', 'D2.vic_sec_contact_asym_mig', 'reparam', {'nu1': '1-s', 'nu2': 's'})
E('D2.vic_anc_sym_mig', 'D2.vic_no_mig', 'T=0', {'m': 1.3, 'T1': 0, 'T2': 'T'})
E('D2.vic_anc_asym_mig', 'D2.vic_anc_sym_mig', 'm12=m21', {'m12': 'm', 'm21': 'm'})
E('D2.vic_sec_contact_sym_mig', 'D2.vic_no_mig', 'T=0', {'m': 1.3, 'T1': 'T', 'T2': 0})
E('D2.vic_sec_contact_asym_mig', 'D2.vic_sec_contact_sym_mig', 'm12=m21', {'m12': 'm', 'm21': 'm'})
E('D2.founder_sym', 'D2.founder_nomig', 'm=0', {'m': 0})
E('D2.founder_asym', 'D2.founder_sym', 'm12=m21', {'m12': 'm', 'm21': 'm'})
E('D2.founder_asym', 'D2.founder_nomig', 'm=0', {'m12': 0, 'm21': 0})
E('D2.vic_no_mig_admix_early', 'D2.vic_no_mig', 'f=0', {'f': 0})
E('D2.vic_no_mig_admix_late', 'D2.vic_no_mig', 'f=0', {'f': 0})
E('D2.vic_two_epoch_admix', 'D2.vic_no_mig_admix_late', 'T=0', {'T1': 'T', 'T2': 0})
E('D2.vic_two_epoch_admix', 'D2.vic_no_mig_admix_early', 'T=0', {'T1': 0, 'T2': 'T'})
E('D2.founder_nomig_admix_early', 'D2.founder_nomig', 'f=0', {'f': 0})
E('D2.founder_nomig_admix_late', 'D2.founder_nomig', 'f=0', {'f': 0})
E('D2.founder_nomig_admix_two_epoch', 'D2.founder_nomig_admix_late', 'T=0', {'T1': 'T', 'T2': 0})
# native two-population models
E('D2.split_mig', 'D2.sym_mig', 'reparam', None)                 # same scenario, parameters in another order
E('D2.split_mig', 'D2.no_mig', 'm=0', {'m': 0})
E('D2.split_asym_mig', 'D2.split_mig', 'm12=m21', {'m12': 'm', 'm21': 'm'})
E('D2.split_asym_mig', 'D2.asym_mig', 'reparam', None)
E('D2.split_delay_mig', 'D2.split_asym_mig', 'T=0', {'Tpre': 0, 'Tmig': 'T'})
E('D2.split_delay_mig', 'D2.sec_contact_asym_mig', 'reparam', {'Tpre': 'T1', 'Tmig': 'T2'})
E('D2.bottlegrowth_split', 'D2.bottlegrowth_2d', 'T=0', {'Ts': 0})
E('D2.bottlegrowth_split_mig', 'D2.bottlegrowth_split', 'm=0', {'m': 0})
E('D2.IM_pre', 'D2.IM', 'T=0', {'nuPre': 1, 'TPre': 0})

# ------------------------------------------------------------------ three populations
E('D3.split_symmig_all', 'D3.split_symmig_adjacent', 'm=0', {'m3': 0})
E('D3.split_symmig_adjacent', 'D3.split_nomig', 'm=0', {'mA': 0, 'm1': 0, 'm2': 0})
E('D3.split_symmig_adjacent', 'D3.refugia_adj_2', 'm=0', {'mA': 0})
E('D3.split_symmig_adjacent', 'D3.ancmig_adj_2', 'm=0', {'m1': 0, 'm2': 0})
E('D3.split_symmig_all', 'D3.split_sym_mig_adjacent_var1', 'm=0', {'m1': 0})
E('D3.split_sym_mig_adjacent_var1', 'D3.split_sym_mig_adjacent_var2', 'm=0', {'m2': 0})
E('D3.split_sym_mig_adjacent_var1', 'D3.refugia_adj_2_var_sym', 'm=0', {'mA': 0})
E('D3.refugia_adj_1', 'D3.split_nomig', 'T=0', {'m1': 0.8, 'm2': 1.7, 'T3': 0})
E('D3.refugia_adj_1', 'D3.refugia_adj_2', 'T=0', {'T2': 0, 'T3': 'T2'})
E('D3.refugia_adj_2', 'D3.split_nomig', 'm=0', {'m1': 0, 'm2': 0})
E('D3.refugia_adj_3', 'D3.refugia_adj_2', 'T=0', {'mA': 1.2, 'T1a': 'T1', 'T1b': 0})
E('D3.refugia_adj_3', 'D3.split_symmig_adjacent', 'T=0', {'T1a': 0, 'T1b': 'T1'})
E('D3.ancmig_adj_3', 'D3.ancmig_adj_2', 'T=0', {'T1a': 'T1', 'T1b': 0})
E('D3.ancmig_adj_3', 'D3.split_nomig', 'T=0', {'mA': 1.2, 'T1a': 0, 'T1b': 'T1'})
E('D3.ancmig_adj_2', 'D3.split_nomig', 'm=0', {'mA': 0})
E('D3.ancmig_adj_1', 'D3.split_symmig_adjacent', 'T=0', {'T3': 0})
E('D3.ancmig_adj_1', 'D3.ancmig_adj_2', 'T=0', {'m1': 0.8, 'm2': 1.7, 'T2': 0, 'T3': 'T2'})
E('D3.sim_split_sym_mig_all', 'D3.sim_split_sym_mig_adjacent', 'm=0', {'m3': 0})
E('D3.sim_split_sym_mig_adjacent', 'D3.sim_split_no_mig', 'm=0', {'m1': 0, 'm2': 0})
E('D3.sim_split_sym_mig_all', 'D3.sim_split_sym_mig_adjacent_var', 'm=0', {'m1': 0})
E('D3.sim_split_no_mig_size', 'D3.sim_split_no_mig', 'T=0', {'nu1a': 'nu1', 'nu2a': 'nu2', 'nu3a': 'nu3', 'nu1b': 0.6, 'nu2b': 1.4, 'nu3b': 2.1, 'T2': 0})
E('D3.sim_split_no_mig_size', 'D3.sim_split_no_mig', 'T=0', {'nu1a': 0.6, 'nu2a': 1.4, 'nu3a': 2.1, 'nu1b': 'nu1', 'nu2b': 'nu2', 'nu3b': 'nu3', 'T1': 0, 'T2': 'T1'})
E('D3.sim_split_refugia_sym_mig_all', 'D3.sim_split_sym_mig_all', 'T=0', {'T1': 0, 'T2': 'T1'})
E('D3.sim_split_refugia_sym_mig_all', 'D3.sim_split_no_mig', 'T=0', {'m1': 0.8, 'm2': 1.7, 'm3': 0.3, 'T2': 0})
E('D3.sim_split_refugia_sym_mig_all', 'D3.sim_split_refugia_sym_mig_adjacent', 'm=0', {'m3': 0})
E('D3.sim_split_refugia_sym_mig_adjacent', 'D3.sim_split_sym_mig_adjacent', 'T=0', {'T1': 0, 'T2': 'T1'})
E('D3.split_nomig_size', 'D3.split_nomig', 'T=0', {'nu1a': 'nu1', 'nu2a': 'nu2', 'nu3a': 'nu3', 'nu1b': 0.6, 'nu2b': 1.4, 'nu3b': 2.1, 'T3': 0})
E('D3.split_nomig_size', 'D3.split_nomig', 'T=0', {'nu1a': 'nu1', 'nu2a': 0.6, 'nu3a': 1.4, 'nu1b': 'nu1', 'nu2b': 'nu2', 'nu3b': 'nu3', 'T2': 0, 'T3': 'T2'})
E('D3.ancmig_2_size', 'D3.split_nomig_size', 'm=0', {'mA': 0})
E('D3.ancmig_2_size', 'D3.ancmig_adj_2', 'T=0', {'nu1a': 'nu1', 'nu2a': 'nu2', 'nu3a': 'nu3', 'nu1b': 0.6, 'nu2b': 1.4, 'nu3b': 2.1, 'T3': 0})
E('D3.sim_split_refugia_sym_mig_adjacent_size', 'D3.sim_split_refugia_sym_mig_adjacent', 'T=0',
  {'nu1a': 'nu1', 'nu2a': 'nu2', 'nu3a': 'nu3', 'nu1b': 0.6, 'nu2b': 1.4, 'nu3b': 2.1, 'T3': 0})
E('D3.sim_split_refugia_sym_mig_adjacent_size', 'D3.sim_split_no_mig_size', 'm=0', {'m1': 0, 'm2': 0, 'T1': 0, 'T2': 'T1', 'T3': 'T2'})
E('D3.refugia_adj_2_var_sym', 'D3.split_nomig', 'm=0', {'m2': 0, 'm3': 0})
E('D3.refugia_adj_2_var_uni', 'D3.split_nomig', 'm=0', {'m32': 0, 'm31': 0})
E('D3.refugia_adj_3_var_sym', 'D3.refugia_adj_2_var_sym', 'T=0', {'mA': 1.2, 'T1a': 'T1', 'T1b': 0})
E('D3.refugia_adj_3_var_sym', 'D3.split_sym_mig_adjacent_var1', 'T=0', {'T1a': 0, 'T1b': 'T1'})
E('D3.refugia_adj_3_var_uni', 'D3.refugia_adj_2_var_uni', 'T=0', {'mA': 1.2, 'T1a': 'T1', 'T1b': 0})
E('D3.refugia_adj_3_var_uni', 'D3.split_uni_mig_adjacent_var1', 'T=0', {'T1a': 0, 'T1b': 'T1'})
E('D3.split_uni_mig_adjacent_var1', 'D3.split_uni_mig_adjacent_var2', 'm=0', {'m32': 0})
E('D3.split_uni_mig_adjacent_var1', 'D3.refugia_adj_2_var_uni', 'm=0', {'mA': 0})
E('D3.split_sym_mig_adjacent_var2', 'D3.ancmig_adj_2', 'm=0', {'m3': 0})
E('D3.split_uni_mig_adjacent_var2', 'D3.ancmig_adj_2', 'm=0', {'m31': 0})
E('D3.sim_split_sym_mig_adjacent_var', 'D3.sim_split_no_mig', 'm=0', {'m2': 0, 'm3': 0})
E('D3.sim_split_uni_mig_adjacent_var', 'D3.sim_split_no_mig', 'm=0', {'m32': 0, 'm31': 0})
E('D3.sim_split_refugia_sym_mig_adjacent_var', 'D3.sim_split_sym_mig_adjacent_var', 'T=0', {'T1': 0, 'T2': 'T1'})
E('D3.sim_split_refugia_uni_mig_adjacent_var', 'D3.sim_split_uni_mig_adjacent_var', 'T=0', {'T1': 0, 'T2': 'T1'})
E('D3.sim_split_refugia_sym_mig_adjacent_var', 'D3.sim_split_no_mig', 'T=0', {'m2': 0.8, 'm3': 1.7, 'T2': 0})
E('D3.sim_split_refugia_uni_mig_adjacent_var', 'D3.sim_split_no_mig', 'T=0', {'m32': 0.8, 'm31': 1.7, 'T2': 0})
E('D3.admix_origin_sym_mig_adj', 'D3.admix_origin_no_mig', 'm=0', {'m2': 0, 'm3': 0})
E('D3.admix_origin_uni_mig_adj', 'D3.admix_origin_no_mig', 'm=0', {'m32': 0, 'm31': 0})

# ------------------------------------------------------------------ demography + selection
E('SEL.equil', 'D1.snm_1d', 'gamma=0', {'gamma': 0})
E('SEL.two_epoch_sel', 'D1.two_epoch', 'gamma=0', {'gamma': 0})
E('SEL.three_epoch_sel', 'D1.three_epoch', 'gamma=0', {'gamma': 0})
E('SEL.growth_sel', 'D1.growth', 'gamma=0', {'gamma': 0})
E('SEL.bottlegrowth_1d_sel', 'D1.bottlegrowth_1d', 'gamma=0', {'gamma': 0})
for base, neutral in [('IM_pre', 'D2.IM_pre'), ('IM', 'D2.IM'), ('split_mig', 'D2.split_mig'), ('split_asym_mig', 'D2.split_asym_mig'),
                      ('split_delay_mig', 'D2.split_delay_mig'), ('bottlegrowth_2d', 'D2.bottlegrowth_2d'), ('bottlegrowth_split', 'D2.bottlegrowth_split'),
                      ('bottlegrowth_split_mig', 'D2.bottlegrowth_split_mig')]:
    E('SEL.%s_sel' % base, 'SEL.%s_sel_single_gamma' % base, 'gamma1=gamma2', {'gamma1': 'gamma', 'gamma2': 'gamma'})
    E('SEL.%s_sel_single_gamma' % base, neutral, 'gamma=0', {'gamma': 0})
    E('SEL.%s_sel' % base, neutral, 'gamma=0', {'gamma1': 0, 'gamma2': 0})
E('SEL.split_mig_sel', 'SEL.split_asym_mig_sel', 'm12=m21', None)    # reversed below
E('SEL.split_delay_mig_sel', 'SEL.split_asym_mig_sel', 'T=0', {'Tpre': 0, 'Tmig': 'T'})
E('SEL.IM_pre_sel', 'SEL.IM_sel', 'T=0', {'nuPre': 1, 'TPre': 0})
E('SEL.three_epoch_sel', 'SEL.two_epoch_sel', 'T=0', {'nuB': 'nu', 'nuF': 1.7, 'TB': 'T', 'TF': 0})

# a few edges are more naturally written simple <- complex with the complex model's parameters expressed from the simple one's;
# the entries with mapping None above are placeholders replaced here
EDGES = [e for e in EDGES if e[3] is not None and e[3] != {} or e[2] == 'reparam']
E('D2.sec_contact_asym_mig_three_epoch', 'D2.sec_contact_sym_mig_three_epoch', 'm12=m21', {'m12': 'm', 'm21': 'm', '__tie__': ('T3', 'T2')})
E('D2.sec_contact_asym_mig_three_epoch', 'D2.anc_asym_mig', 'T=0', {'T1': 0, 'T2': 'T1', '__tie__': ('T2', 'T1')})
E('SEL.split_asym_mig_sel', 'SEL.split_mig_sel', 'm12=m21', {'m12': 'm', 'm21': 'm'})

# epochs isolated the other way round (the LATER epoch of zero length), keeping unequal selection coefficients: a slip in the first
# epoch's call is invisible in every edge above, where that epoch vanishes or both coefficients are equal.
# '__simple__' holds parameters of the simple model at fixed values.
E('SEL.split_delay_mig_sel', 'SEL.split_asym_mig_sel', 'T=0', {'Tpre': 'T', 'Tmig': 0, 'm12': 1.3, 'm21': 0.7, '__simple__': {'m12': 0, 'm21': 0}})
E('D2.split_delay_mig', 'D2.split_asym_mig', 'T=0', {'Tpre': 'T', 'Tmig': 0, 'm12': 1.3, 'm21': 0.7, '__simple__': {'m12': 0, 'm21': 0}})
E('SEL.three_epoch_sel', 'SEL.two_epoch_sel', 'T=0', {'nuB': 0.6, 'nuF': 'nu', 'TB': 0, 'TF': 'T'})
E('SEL.bottlegrowth_split_mig_sel', 'SEL.bottlegrowth_split_sel', 'm=0', {'m': 0})
E('SEL.bottlegrowth_split_sel', 'SEL.bottlegrowth_2d_sel', 'T=0', {'Ts': 0})
E('SEL.split_mig_sel', 'SEL.split_asym_mig_sel', 'm=0', {'m': 0, '__simple__': {'m12': 0, 'm21': 0}})
# IM without growth (final sizes equal to the initial fractions s and 1-s) is a plain split with asymmetric migration
E('SEL.IM_sel', 'SEL.split_asym_mig_sel', 'reparam', {'s': 0.3, '__simple__': {'nu1': 0.3, 'nu2': 0.7}})
E('D2.IM', 'D2.split_asym_mig', 'reparam', {'s': 0.3, '__simple__': {'nu1': 0.3, 'nu2': 0.7}})

# ------------------------------------------------------------------ label-swap symmetries (two populations):
# model -> permutation of its parameter names induced by exchanging the population labels (values move with the names)
SWAPS = {
    'D2.no_mig': {'nu1': 'nu2', 'nu2': 'nu1'},
    'D2.sym_mig': {'nu1': 'nu2', 'nu2': 'nu1'},
    'D2.asym_mig': {'nu1': 'nu2', 'nu2': 'nu1', 'm12': 'm21', 'm21': 'm12'},
    'D2.anc_sym_mig': {'nu1': 'nu2', 'nu2': 'nu1'},
    'D2.anc_asym_mig': {'nu1': 'nu2', 'nu2': 'nu1', 'm12': 'm21', 'm21': 'm12'},
    'D2.sec_contact_sym_mig': {'nu1': 'nu2', 'nu2': 'nu1'},
    'D2.sec_contact_asym_mig': {'nu1': 'nu2', 'nu2': 'nu1', 'm12': 'm21', 'm21': 'm12'},
    'D2.no_mig_size': {'nu1a': 'nu2a', 'nu2a': 'nu1a', 'nu1b': 'nu2b', 'nu2b': 'nu1b'},
    'D2.sym_mig_size': {'nu1a': 'nu2a', 'nu2a': 'nu1a', 'nu1b': 'nu2b', 'nu2b': 'nu1b'},
    'D2.asym_mig_size': {'nu1a': 'nu2a', 'nu2a': 'nu1a', 'nu1b': 'nu2b', 'nu2b': 'nu1b', 'm12': 'm21', 'm21': 'm12'},
    'D2.anc_sym_mig_size': {'nu1a': 'nu2a', 'nu2a': 'nu1a', 'nu1b': 'nu2b', 'nu2b': 'nu1b'},
    'D2.anc_asym_mig_size': {'nu1a': 'nu2a', 'nu2a': 'nu1a', 'nu1b': 'nu2b', 'nu2b': 'nu1b', 'm12': 'm21', 'm21': 'm12'},
    'D2.sec_contact_sym_mig_size': {'nu1a': 'nu2a', 'nu2a': 'nu1a', 'nu1b': 'nu2b', 'nu2b': 'nu1b'},
    'D2.sec_contact_asym_mig_size': {'nu1a': 'nu2a', 'nu2a': 'nu1a', 'nu1b': 'nu2b', 'nu2b': 'nu1b', 'm12': 'm21', 'm21': 'm12'},
    'D2.sym_mig_twoepoch': {'nu1': 'nu2', 'nu2': 'nu1'},
    'D2.asym_mig_twoepoch': {'nu1': 'nu2', 'nu2': 'nu1', 'm12a': 'm21a', 'm21a': 'm12a', 'm12b': 'm21b', 'm21b': 'm12b'},
    'D2.sec_contact_sym_mig_three_epoch': {'nu1': 'nu2', 'nu2': 'nu1'},
    'D2.sec_contact_asym_mig_three_epoch': {'nu1': 'nu2', 'nu2': 'nu1', 'm12': 'm21', 'm21': 'm12'},
    'D2.sec_contact_sym_mig_size_three_epoch': {'nu1a': 'nu2a', 'nu2a': 'nu1a', 'nu1b': 'nu2b', 'nu2b': 'nu1b'},
    'D2.sec_contact_asym_mig_size_three_epoch': {'nu1a': 'nu2a', 'nu2a': 'nu1a', 'nu1b': 'nu2b', 'nu2b': 'nu1b', 'm12': 'm21', 'm21': 'm12'},
    'D2.split_mig': {'nu1': 'nu2', 'nu2': 'nu1'},
    'D2.split_asym_mig': {'nu1': 'nu2', 'nu2': 'nu1', 'm12': 'm21', 'm21': 'm12'},
    'D2.split_delay_mig': {'nu1': 'nu2', 'nu2': 'nu1', 'm12': 'm21', 'm21': 'm12'},
    'D2.snm_2d': {},
    'D2.bottlegrowth_2d': {},
    'D2.bottlegrowth_split': {},
    'D2.bottlegrowth_split_mig': {},
    'D2.vic_no_mig': {'s': '1-s'},
    'D2.vic_anc_sym_mig': {'s': '1-s'},
    'D2.vic_sec_contact_sym_mig': {'s': '1-s'},
    'D2.vic_anc_asym_mig': {'s': '1-s', 'm12': 'm21', 'm21': 'm12'},
    'D2.vic_sec_contact_asym_mig': {'s': '1-s', 'm12': 'm21', 'm21': 'm12'},
    'D2.IM': {'s': '1-s', 'nu1': 'nu2', 'nu2': 'nu1', 'm12': 'm21', 'm21': 'm12'},
    'D2.IM_pre': {'s': '1-s', 'nu1': 'nu2', 'nu2': 'nu1', 'm12': 'm21', 'm21': 'm12'},
    'SEL.split_mig_sel_single_gamma': {'nu1': 'nu2', 'nu2': 'nu1'},
}

# ------------------------------------------------------------------ label-swap symmetries of three-population models:
# model -> (axes permutation applied to the populations, induced permutation of the parameter names). Only models whose
# docstring states the role of every parameter unambiguously.
SWAPS3 = {
    # Eu <-> As: 'nuEu0/nuEu: population 2', 'nuAs0/nuAs: population 3', 'mAfEu: between 1 and 2', 'mAfAs: between 1 and 3'
    'D3.out_of_africa': ((0, 2, 1), {'nuEu0': 'nuAs0', 'nuAs0': 'nuEu0', 'nuEu': 'nuAs', 'nuAs': 'nuEu', 'mAfEu': 'mAfAs', 'mAfAs': 'mAfEu'}),
    # three populations created at the same moment, no migration: any relabelling
    # population 3 = admixture of 1 (fraction f) and 2: exchanging 1 and 2 exchanges nu1/nu2, the rates with population 3, and f <-> 1-f
    'D3.admix_origin_no_mig': ((1, 0, 2), {'nu1': 'nu2', 'nu2': 'nu1', 'f': '1-f'}),
    'D3.admix_origin_sym_mig_adj': ((1, 0, 2), {'nu1': 'nu2', 'nu2': 'nu1', 'm2': 'm3', 'm3': 'm2', 'f': '1-f'}),
    'D3.admix_origin_uni_mig_adj': ((1, 0, 2), {'nu1': 'nu2', 'nu2': 'nu1', 'm32': 'm31', 'm31': 'm32', 'f': '1-f'}),
    'D3.sim_split_no_mig': ((1, 2, 0), {'nu1': 'nu2', 'nu2': 'nu3', 'nu3': 'nu1'}),
    'D3.sim_split_no_mig_size': ((2, 0, 1), {'nu1a': 'nu3a', 'nu2a': 'nu1a', 'nu3a': 'nu2a', 'nu1b': 'nu3b', 'nu2b': 'nu1b', 'nu3b': 'nu2b'}),
}

