"""C07 - grid extrapolation is exact for polynomial grid dependence with 1-6 grid sizes."""
import math
from fractions import Fraction

import numpy as np
from hypothesis import strategies as st

import logging

import dadi
from dadi import Numerics
from harness.core import Registry, Violation, dadi_call, require, require_close

logging.getLogger('Numerics').setLevel(logging.ERROR)

REG = Registry(
    'C07',
    rule=('cases = (k in 1..6, distinct extrapolation x-values in arbitrary order, model values or polynomial '
          'coefficients, array- or Spectrum-valued, linear/log mode, pts positional/keyword, explicit x list or '
          'extrap_x attributes); non-trivial = k>=2 with an unsorted grid list, or k>=4; distinct by hash of the whole case'),
    assumptions=['oracle: exact rational (fractions.Fraction) Lagrange extrapolation to x=0 of the float values the model returned',
                 'tolerance 1e-12 * k * sum_i |w_i||y_i| (w = Lagrange weights at 0), i.e. a few ulps of the condition of the node set'])


def lagrange_weights(xs):
    """Exact Lagrange weights at 0 for float nodes xs."""
    fx = [Fraction(x) for x in xs]
    ws = []
    for i, xi in enumerate(fx):
        w = Fraction(1)
        for j, xj in enumerate(fx):
            if i != j:
                w *= xj / (xj - xi)
        ws.append(w)
    return ws


@st.composite
def nodes(draw, k):
    """k distinct positive x-values, ratios between neighbours >= 1.08, shuffled."""
    x0 = draw(st.floats(1e-4, 0.05))
    xs = [x0]
    for _ in range(k - 1):
        xs.append(xs[-1] * draw(st.floats(1.08, 3.0)))
    return draw(st.permutations(xs))


finite = st.floats(-1e3, 1e3, allow_nan=False, allow_infinity=False)
POPS = [None, ['A'], ['pop one', 'B'], ['x', 'y', 'z']]


@st.composite
def table_case(draw, log=None, kmin=1):
    k = draw(st.integers(kmin, 6))
    xs = draw(nodes(k))
    if draw(st.integers(0, 3)) == 0:
        # the grid spacing measured in whole units (extrap_x_l is documented as a list of ints; a result's extrap_x may be one too)
        xs = draw(st.permutations(draw(st.lists(st.integers(1, 60), min_size=k, max_size=k, unique=True))))
    kind = draw(st.sampled_from(['array', 'spectrum']))
    ndim = draw(st.integers(1, 3 if kind == 'spectrum' else 2))
    shape = [draw(st.integers(2, 5)) for _ in range(ndim)]
    n = int(np.prod(shape))
    mode = draw(st.sampled_from(['lin', 'log'])) if log is None else log
    if mode == 'log':
        el = st.floats(1e-8, 1e4)
    else:
        el = st.one_of(finite, st.floats(-1e-6, 1e-6))
    ys = [draw(st.lists(el, min_size=n, max_size=n)) for _ in range(k)]
    return dict(k=k, xs=list(xs), kind=kind, shape=shape, ys=ys, mode=mode,
                passing=draw(st.sampled_from(['pos', 'kw'])),
                explicit_x=draw(st.booleans()) if kind == 'spectrum' else True,
                labelled=draw(st.booleans()), folded=draw(st.booleans()),
                extra_arg=draw(st.booleans()), attr_differs=draw(st.booleans()))


def build_model(case, ys_arrays):
    """A model func(params?, pts) returning the prepared value for grid size pts=index+10."""
    pts_l = [10 + 7 * i for i in range(case['k'])]
    table = dict(zip(pts_l, zip(case['xs'], ys_arrays)))
    ndim = len(case['shape'])
    pop_ids = ['pop %d' % i for i in range(ndim)] if case.get('labelled') else None

    def val(pts):
        x, y = table[pts]
        if case['kind'] == 'spectrum':
            fs = dadi.Spectrum(np.array(y), mask_corners=True, pop_ids=pop_ids)
            # with an explicit extrap_x_l the documented rule is that the list is used; the results may then carry any extrap_x
            # of their own (as every from_phi spectrum does) - here a different one, so that it matters which is used
            fs.extrap_x = (0.37 * x + 0.011) if (case.get('explicit_x') and case.get('attr_differs')) else x
            return fs
        return np.array(y)

    calls = []
    if case.get('extra_arg'):
        def model(params, pts):
            calls.append(pts)
            assert params == ('p', 1.5)
            return val(pts)
    else:
        def model(pts):
            calls.append(pts)
            return val(pts)
    return model, pts_l, pop_ids, calls


def call_wrapped(case, model, pts_l, fail_mag=None):
    kw = {}
    if fail_mag is not None:
        kw['fail_mag'] = fail_mag
    xl = list(case['xs']) if case['explicit_x'] else None
    with dadi_call('make_extrap_func', k=case['k']):
        if case['mode'] == 'log' and fail_mag is None:
            f = Numerics.make_extrap_log_func(model, extrap_x_l=xl)
        else:
            f = Numerics.make_extrap_func(model, extrap_x_l=xl, extrap_log=(case['mode'] == 'log'), **kw)
    args = (('p', 1.5),) if case.get('extra_arg') else ()
    with dadi_call('extrapolating wrapper with %d grid sizes' % case['k'], k=case['k']):
        if case['passing'] == 'pos':
            return f(*(args + (list(pts_l),)))
        return f(*args, pts=list(pts_l))


def exact_extrap(xs, ys_arrays, log):
    ws = lagrange_weights(xs)
    ys = [np.asarray(y, dtype=float).ravel() for y in ys_arrays]
    if log:
        ys = [np.log(y) for y in ys]
    n = ys[0].size
    out = np.empty(n)
    cond = np.empty(n)
    for e in range(n):
        s = sum(w * Fraction(float(y[e])) for w, y in zip(ws, ys))
        out[e] = float(s)
        cond[e] = float(sum(abs(w) * abs(Fraction(float(y[e]))) for w, y in zip(ws, ys)))
    return out, cond


def nontrivial(case):
    k = case['k']
    return (k >= 2 and list(case['xs']) != sorted(case['xs'])) or k >= 4


def check_meta(case, res, pop_ids, rec):
    """labels, mask, type and shape of the wrapper's result."""
    shape = tuple(case['shape'])
    require(np.shape(res) == shape, 'result shape %s != %s' % (np.shape(res), shape))
    if case['kind'] == 'spectrum':
        require(isinstance(res, dadi.Spectrum), 'Spectrum-valued model gave %s' % type(res).__name__)
        require(getattr(res, 'pop_ids', None) == pop_ids,
                'labels not preserved: %r != %r' % (getattr(res, 'pop_ids', None), pop_ids))
        expmask = dadi.Spectrum(np.zeros(shape)).mask
        require(np.array_equal(np.ma.getmaskarray(res), expmask), 'mask of extrapolated spectrum changed')


@REG.relation('R1-table', strategy=table_case, quick=(4000, 8), thorough=(60000, 16))
def r1(case, rec):
    """Any k values at k distinct nodes are a polynomial of degree<k: result = exact Lagrange value at 0
    (fallback entries excepted and judged by the fail_mag rule)."""
    k = case['k']
    ys_arrays = [np.array(y, dtype=float).reshape(case['shape']) for y in case['ys']]
    model, pts_l, pop_ids, calls = build_model(case, ys_arrays)
    rec.case(case, nontrivial(case), labels=['k=%d' % k, case['mode'], case['kind'], case['passing'],
                                             'explicit_x' if case['explicit_x'] else 'attr_x'] +
             (['integer x'] if all(isinstance(x, int) for x in case['xs']) else []))
    res = call_wrapped(case, model, pts_l)
    require(sorted(calls) == sorted(pts_l), 'model evaluated at %r, expected each of %r once' % (calls, pts_l))
    check_meta(case, res, pop_ids, rec)
    log = case['mode'] == 'log'
    exact, cond = exact_extrap(case['xs'], ys_arrays, log)
    got = np.asarray(np.ma.getdata(res), dtype=float).ravel()
    valid = ~np.ma.getmaskarray(res).ravel() if case['kind'] == 'spectrum' else np.ones(got.size, bool)
    best = ys_arrays[int(np.argmin(case['xs']))].ravel()
    ln10 = math.log(10.0)
    for e in range(got.size):
        if not valid[e]:
            continue
        if k == 1:
            require(got[e] == best[e] or (log and abs(got[e] - best[e]) <= 1e-14 * abs(best[e])),
                    'k=1 must return the single result unchanged (entry %d: %r vs %r)' % (e, got[e], best[e]))
            continue
        tol = 1e-12 * k * cond[e] + (1e-13 if log else 1e-300)
        # fail_mag rule (default 10 decades), judged only away from the threshold
        if log and abs(exact[e]) > 650:
            rec.label('log-extrapolation under/overflows: not judged')
            continue
        if not log and abs(exact[e]) <= tol:
            # the exact value is below the round-off of the sum that forms it (cancellation): the floating-point extrapolation is
            # round-off noise of either sign and any size up to tol, so whether the 10-decade rule replaces it is not determined -
            # both the extrapolation (within tol) and the finest-grid value are correct outcomes
            rec.label('exact value below round-off: either outcome accepted')
            if not (abs(got[e] - exact[e]) <= tol or abs(got[e] - best[e]) <= 1e-13 * abs(best[e])):
                raise Violation('k=%d lin: entry %d is %r: neither the exact value %r (within %.3e) nor the finest-grid value %r'
                                % (k, e, float(got[e]), float(exact[e]), tol, float(best[e])), k=k)
            continue
        if log:
            decades = abs(exact[e] - math.log(best[e])) / ln10
        elif best[e] != 0 and exact[e] != 0 and exact[e] / best[e] > 0:
            decades = abs(math.log10(exact[e] / best[e]))
        elif best[e] == 0 or exact[e] == 0:
            continue        # log10 of 0 or inf: either outcome is within the documented rule's reach
        else:
            decades = 0.0   # sign change: the rule's log10 is nan, so no replacement
        if decades > 10.5:
            require(abs(got[e] - best[e]) <= 1e-13 * abs(best[e]),
                    'entry %d: extrapolation is %.1f decades from the finest-grid value %g but was not replaced by it (got %g)'
                    % (e, decades, best[e], got[e]))
            rec.label('fallback')
            continue
        if decades > 9.5:
            continue  # too close to the threshold to call
        if log:
            d = abs(math.log(got[e]) - exact[e]) if got[e] > 0 else float('inf')
        else:
            d = abs(got[e] - exact[e])
        rec.err('extrap/cond', d / (cond[e] + 1e-300))
        if d > tol:
            raise Violation('k=%d %s: entry %d extrapolates to %r, exact Lagrange value %s%r (diff %.3e > tol %.3e)'
                            % (k, case['mode'], e, float(got[e]), 'exp of ' if log else '', float(exact[e]), d, tol), k=k)


@st.composite
def poly_case(draw):
    k = draw(st.integers(1, 6))
    xs = draw(nodes(k))
    deg = draw(st.integers(0, k - 1))
    n = draw(st.integers(1, 6))
    mode = draw(st.sampled_from(['lin', 'log']))
    coef = st.floats(-50, 50) if mode == 'lin' else st.floats(-3, 3)
    cs = [draw(st.lists(coef, min_size=n, max_size=n)) for _ in range(deg + 1)]
    return dict(k=k, xs=list(xs), cs=cs, mode=mode, kind=draw(st.sampled_from(['array', 'spectrum'])),
                shape=[n], passing=draw(st.sampled_from(['pos', 'kw'])), explicit_x=draw(st.booleans()),
                labelled=draw(st.booleans()), extra_arg=draw(st.booleans()), attr_differs=draw(st.booleans()))


@REG.relation('R2-poly', strategy=poly_case, quick=(4000, 8), thorough=(60000, 16))
def r2(case, rec):
    """Statement verbatim: model(pts) = sum_d c_d x(pts)^d (log mode: exp of it), degree < k  =>  result = c_0 (exp c_0)."""
    k = case['k']
    if case['kind'] == 'array':
        case = dict(case, explicit_x=True)
    xs = case['xs']
    cs = np.array(case['cs'], dtype=float)  # (deg+1, n)
    ys = []
    S = 0.0
    for x in xs:
        p = sum(cs[d] * x ** d for d in range(cs.shape[0]))
        S = max(S, float(sum(np.abs(cs[d]) * x ** d for d in range(cs.shape[0])).max()))
        ys.append(np.exp(p) if case['mode'] == 'log' else p)
    if case['mode'] == 'log' and S > 100:
        from harness.core import Reject
        raise Reject()   # exp() of the polynomial leaves the double range
    model, pts_l, pop_ids, calls = build_model(case, ys)
    rec.case(case, nontrivial(case), labels=['k=%d' % k, 'deg=%d' % (cs.shape[0] - 1), case['mode']])
    res = call_wrapped(case, model, pts_l)
    check_meta(case, res, pop_ids, rec)
    got = np.asarray(np.ma.getdata(res), dtype=float)
    lam = float(sum(abs(w) for w in lagrange_weights(xs)))
    if case['kind'] == 'spectrum':
        sl = slice(1, -1)  # corners are masked
    else:
        sl = slice(None)
    if k == 1:
        require_close(got[sl], np.asarray(ys[0])[sl], 1e-14 if case['mode'] == 'log' else 0.0, 'k=1 must return the single result unchanged')
        return
    c0 = cs[0]
    if case['mode'] == 'log':
        # |log(result) - c0| small; fallback impossible: |log10 ratio| <= (|c|*x sums)/ln10 << 10
        require((got[sl] > 0).all(), 'log extrapolation gave non-positive value')
        require_close(np.log(got[sl]), c0[sl], 0.0, 'log-extrapolated value vs c0', rec, atol=1e-11 * lam * (S + 1))
    else:
        # skip entries where the fallback rule may legitimately interfere (|c0| tiny relative to finest value)
        best = np.asarray(ys[int(np.argmin(xs))])
        ok = np.ones(c0.shape, bool)
        with np.errstate(all='ignore'):
            ratio = np.abs(np.log10(np.abs(c0 / best)))
        ok &= ~(ratio > 9.0) & np.isfinite(ratio)
        idx = np.arange(c0.size)[sl]
        idx = [i for i in idx if ok[i]]
        if idx:
            require_close(got[idx], c0[idx], 0.0, 'extrapolated value vs c0', rec, atol=1e-11 * lam * (S + 1e-300))


@st.composite
def fallback_case(draw):
    """Entries engineered to extrapolate D decades above/below the finest-grid value."""
    k = draw(st.integers(2, 4))
    x0 = draw(st.floats(1e-3, 0.05))
    xs = [x0 * (2.0 ** i) for i in range(k)]
    xs = list(draw(st.permutations(xs)))
    fail_mag = draw(st.sampled_from([None, 3, 5, 8, 10]))
    n = draw(st.integers(2, 6))
    entries = []
    for _ in range(n):
        direction = draw(st.sampled_from(['up', 'down']))
        fm = 10 if fail_mag is None else fail_mag
        beyond = draw(st.booleans())
        if beyond:
            D = draw(st.floats(fm + 0.3, min(fm + 3, 13.0)))
        else:
            D = draw(st.floats(0.0, fm - 0.3))
        entries.append(dict(direction=direction, D=D, beyond=beyond))
    return dict(k=k, xs=xs, fail_mag=fail_mag, entries=entries, mode=draw(st.sampled_from(['lin', 'log'])),
                kind=draw(st.sampled_from(['array', 'spectrum'])), passing=draw(st.sampled_from(['pos', 'kw'])),
                explicit_x=True, labelled=draw(st.booleans()), extra_arg=False)


@REG.relation('R3-fallback', strategy=fallback_case, quick=(1500, 4), thorough=(20000, 8))
def r3(case, rec):
    """Entries extrapolating more than fail_mag decades from the finest-grid value fall back to it; the others do not."""
    k = case['k']
    xs = case['xs']
    xmin = min(xs)
    n = len(case['entries']) + 2
    case = dict(case, shape=[n])
    ys = [np.ones(n) for _ in xs]
    want = []
    for e, ent in enumerate(case['entries'], start=1):
        # linear dependence y = c0 + c1 x: choose (c0, y(xmin)) a factor 10^D apart
        if ent['direction'] == 'up':     # extrapolated value much larger than finest value
            c0, ymin = 1.0, 10.0 ** (-ent['D'])
        else:
            c0, ymin = 10.0 ** (-ent['D']), 1.0
        if case['mode'] == 'log':
            lc0, lymin = math.log(c0), math.log(ymin)
            c1 = (lymin - lc0) / xmin
            for i, x in enumerate(xs):
                ys[i][e] = math.exp(lc0 + c1 * x) if x != xmin else ymin
        else:
            c1 = (ymin - c0) / xmin
            for i, x in enumerate(xs):
                ys[i][e] = c0 + c1 * x if x != xmin else ymin
        want.append((e, c0, ymin, ent))
    if case['mode'] == 'log' and not all((y > 0).all() and np.isfinite(y).all() for y in ys):
        from harness.core import Reject
        raise Reject()
    model, pts_l, pop_ids, calls = build_model(case, ys)
    rec.case(case, True, labels=['k=%d' % k, 'fail_mag=%s' % case['fail_mag'], case['mode']] +
             ['beyond' if e['beyond'] else 'within' for e in case['entries']])
    res = call_wrapped(case, model, pts_l, fail_mag=case['fail_mag'] if case['fail_mag'] is not None else None)
    check_meta(case, res, pop_ids, rec)
    got = np.asarray(np.ma.getdata(res), dtype=float)
    exact, cond = exact_extrap(xs, ys, case['mode'] == 'log')
    for e, c0, ymin, ent in want:
        ex_val = math.exp(exact[e]) if case['mode'] == 'log' else exact[e]
        if ent['beyond']:
            require(abs(got[e] - ymin) <= 1e-13 * ymin, 'entry %d extrapolates %.2f decades (> fail_mag %s) from the finest-grid value %g but '
                    'result is %g, not the finest-grid value' % (e, ent['D'], case['fail_mag'], ymin, got[e]))
        else:
            require(abs(got[e] - ex_val) <= 1e-11 * k * (math.exp(cond[e]) if case['mode'] == 'log' else cond[e]) + 1e-9 * abs(ex_val),
                    'entry %d extrapolates only %.2f decades (< fail_mag %s) yet result %g != extrapolated %g'
                    % (e, ent['D'], case['fail_mag'], got[e], ex_val))


@st.composite
def reject_case(draw):
    k = draw(st.sampled_from([0, 7, 8, 9]))
    return dict(k=k, mode=draw(st.sampled_from(['lin', 'log'])))


@REG.relation('R4-arity', strategy=reject_case, quick=(20, 1), thorough=(50, 1))
def r4(case, rec):
    """More than six grid sizes (or none) are refused with ValueError, not extrapolated silently."""
    k = case['k']
    rec.case(case, True, labels=['k=%d' % k])
    f = Numerics.make_extrap_func(lambda pts: np.ones(3) * pts, extrap_x_l=[1.0 / (i + 2) for i in range(k)],
                                  extrap_log=case['mode'] == 'log')
    try:
        out = f([10 + i for i in range(k)])
    except ValueError:
        return
    except Exception as e:
        raise Violation('k=%d grid sizes raised %s instead of ValueError' % (k, type(e).__name__))
    raise Violation('k=%d grid sizes accepted: %r' % (k, out))


@st.composite
def real_case(draw):
    k = draw(st.integers(1, 6))
    n = draw(st.integers(2, 12))
    base = draw(st.integers(max(n, 8), 30))
    pts = draw(st.lists(st.integers(base, base + 40), min_size=k, max_size=k, unique=True))
    return dict(k=k, n=n, pts=pts, nu=draw(st.floats(0.2, 5.0)), T=draw(st.floats(0.01, 0.3)),
                mode=draw(st.sampled_from(['lin', 'log'])), passing=draw(st.sampled_from(['pos', 'kw'])),
                model=draw(st.sampled_from(['two_epoch', 'snm2d'])))


@REG.relation('R5-real-model', strategy=real_case, quick=(150, 8), thorough=(1500, 16))
def r5(case, rec):
    """A real library model wrapped for extrapolation: the k-grid result equals the exact Lagrange extrapolation of the
    per-grid spectra at their extrap_x tags; extrap_x is the first grid point above 0."""
    k = case['k']
    if case['model'] == 'two_epoch':
        func, params, ns, pop_ids = dadi.Demographics1D.two_epoch, (case['nu'], case['T']), (case['n'],), None
    else:
        n2 = max(2, min(case['n'], 5))
        func, params, ns, pop_ids = dadi.Demographics2D.snm_2d, (), (n2, n2), None
    pts_l = case['pts']
    mk = Numerics.make_extrap_log_func if case['mode'] == 'log' else Numerics.make_extrap_func
    f = mk(func)
    rec.case(case, k >= 2 and pts_l != sorted(pts_l) or k >= 4, labels=['k=%d' % k, case['model'], case['mode']])
    with dadi_call('extrapolated library model with %d grid sizes' % k, k=k):
        if case['passing'] == 'pos':
            res = f(params, ns, list(pts_l))
        else:
            res = f(params, ns, pts=list(pts_l))
    singles = [func(params, ns, p) for p in pts_l]
    xs = []
    for p, s in zip(pts_l, singles):
        xx = Numerics.default_grid(p)
        require(hasattr(s, 'extrap_x'), 'spectrum from a library model lacks extrap_x')
        require(s.extrap_x == xx[1], 'extrap_x %r is not the first grid point above zero %r' % (s.extrap_x, xx[1]))
        xs.append(float(s.extrap_x))
    data = [np.asarray(np.ma.getdata(s), dtype=float) for s in singles]
    mask = np.ma.getmaskarray(singles[0])
    require(np.array_equal(np.ma.getmaskarray(res), mask), 'mask changed by extrapolation')
    got = np.asarray(np.ma.getdata(res), dtype=float)[~mask]
    if k == 1:
        require_close(got, data[0][~mask], 1e-14 if case['mode'] == 'log' else 0.0, 'k=1 result vs the single-grid spectrum')
        return
    ys = [d[~mask] for d in data]
    if case['mode'] == 'log' and not all((y > 0).all() for y in ys):
        from harness.core import Reject
        raise Reject()
    exact, cond = exact_extrap(xs, ys, case['mode'] == 'log')
    if case['mode'] == 'log':
        d = np.abs(np.log(got) - exact)
    else:
        d = np.abs(got - exact)
    bad = d > 1e-11 * k * cond + 1e-13
    rec.err('real-model extrap/cond', float((d / (cond + 1e-300)).max()))
    if bad.any():
        i = int(np.argmax(bad))
        raise Violation('%s with pts=%r: entry %d = %r, exact extrapolation of the per-grid spectra gives %r'
                        % (case['model'], pts_l, i, float(got[i]), float(np.exp(exact[i]) if case['mode'] == 'log' else exact[i])), k=k)
