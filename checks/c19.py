"""C19 - uncertainty machinery differentiates exactly and matches closed-form information."""
import gc
import logging
import math

import numpy as np
from hypothesis import strategies as st

import dadi
from dadi import Godambe, Inference
from harness.core import Registry, Violation, Reject, dadi_call, require, require_close

logging.getLogger('Inference').setLevel(logging.CRITICAL)

REG = Registry(
    'C19',
    rule=('R1/R2: random quadratic / linear functions in 1-5 parameters, eps in [1e-4,1e-1], parameter values positive, negative, '
          'exactly 0 and below 1e-6/eps (one-sided stencils); R3: Poisson models linear in their parameters (random positive basis '
          'spectra, data and 4-8 bootstraps), multinom on/off, log on/off, eps in [1e-3,5e-2]; R4: chi-square mixtures; R5: call '
          'histories of 2-8 statistics over 3 different model functions sharing (p0, ns, pts). Non-trivial = >=2 parameters, or a '
          'one-sided parameter, or a history with >=2 distinct model functions. Distinct by hash of the case.'),
    assumptions=['closed forms for Poisson likelihoods with analytic first/second derivatives of the model (this file)',
                 'finite differences compared within 20*eps^2 relative (central stencils only: parameters with p*eps >= 1e-6)'])


# ----------------------------------------------------------------------------- R1/R2 exact differentiation
@st.composite
def quad_case(draw):
    n = draw(st.integers(1, 5))
    eps = math.exp(draw(st.floats(math.log(1e-4), math.log(1e-1))))
    ps = []
    for _ in range(n):
        kind = draw(st.sampled_from(['pos', 'pos', 'neg', 'zero', 'tiny']))
        if kind == 'pos':
            ps.append(draw(st.floats(0.01, 10.0)))
        elif kind == 'neg':
            ps.append(-draw(st.floats(0.01, 10.0)))
        elif kind == 'zero':
            ps.append(0.0)
        else:
            ps.append(draw(st.floats(1e-12, 0.9e-6)) / max(eps, 1e-6) * eps)   # p*eps < 1e-6
    # integer-valued parameter vectors handed over as Python ints / an integer array are legitimate input ([2, 3, 1], [0, 0])
    container = draw(st.sampled_from(['floats', 'floats', 'floats', 'ints', 'int-array']))
    if container != 'floats':
        ps = [float(draw(st.integers(-6, 9))) for _ in range(n)]
    return dict(n=n, eps=eps, p=ps, seed=draw(st.integers(0, 2 ** 31 - 1)), linear=draw(st.booleans()), container=container)


def as_given(case):
    """the parameter vector in the container the case asks for"""
    c = case.get('container', 'floats')
    if c == 'ints':
        return [int(v) for v in case['p']]
    if c == 'int-array':
        return np.array([int(v) for v in case['p']])
    return list(case['p'])


def quad_parts(case):
    rs = np.random.RandomState(case['seed'])
    n = case['n']
    A = rs.uniform(-5, 5, (n, n))
    A = (A + A.T) / 2
    b = rs.uniform(-5, 5, n)
    c = rs.uniform(-5, 5)
    return A, b, c


def steps(p, eps):
    h, one = [], []
    for v in p:
        if v != 0 and v * eps >= 1e-6:
            h.append(eps * v)
            one.append(False)
        else:
            h.append(eps)
            one.append(v != 0)
    return np.array(h), one


@REG.relation('R1-hessian-exact', strategy=quad_case, quick=(3000, 8), thorough=(40000, 16))
def r1(case, rec):
    """get_hess is exact for every quadratic, including parameters at 0, tiny, or negative (one-sided stencils)."""
    A, b, c = quad_parts(case)
    p = np.array(case['p'], float)
    eps = case['eps']
    calls = []

    def f(x, extra=0.0):
        x = np.asarray(x, float)
        calls.append(x.copy())
        return 0.5 * x @ A @ x + b @ x + c + extra
    h, one = steps(p, eps)
    rec.case(case, case['n'] >= 2 or any(one) or (p == 0).any(), ['n=%d' % case['n']] + (['one-sided'] if any(one) else []) +
             (['zero-param'] if (p == 0).any() else []))
    with dadi_call('get_hess'):
        H = Godambe.get_hess(f, as_given(case), eps, args=(0.0,))
    fscale = max(abs(0.5 * x @ A @ x + b @ x + c) for x in calls) + 1.0
    for i in range(case['n']):
        for j in range(case['n']):
            tol = 1000 * np.finfo(float).eps * fscale / (abs(h[i]) * abs(h[j])) + 1e-12 * np.abs(A).max()
            rec.err('hessian/tol', abs(H[i, j] - A[i, j]) / tol * 1e-3)
            if abs(H[i, j] - A[i, j]) > tol:
                raise Violation('Hessian element [%d,%d] of a quadratic = %r, exact %r (diff %.3e > round-off bound %.3e; p=%r eps=%g)'
                                % (i, j, float(H[i, j]), float(A[i, j]), abs(H[i, j] - A[i, j]), tol, list(p), eps))
    require(np.array_equal(H, H.T), 'Hessian not symmetric')
    # where the one-sided stencil applies (a parameter at zero or tiny), the function is only ever evaluated at or above the
    # parameter: a model need not be defined below it (a time, a rate, a mixture weight at its boundary)
    for i in range(case['n']):
        if one[i] or p[i] == 0:
            low = min(x[i] for x in calls)
            require(low >= p[i] - 1e-15 * abs(p[i]), 'get_hess evaluated the function at parameter %d = %r, below its value %r where the one-sided '
                    'stencil applies (p=%r eps=%g)' % (i, float(low), float(p[i]), list(p), eps))


@REG.relation('R2-gradient-exact', strategy=quad_case, quick=(3000, 8), thorough=(40000, 16))
def r2(case, rec):
    """get_grad: exact for quadratics where the central stencil is used, exact for linear functions everywhere."""
    A, b, c = quad_parts(case)
    if case['linear']:
        A = A * 0.0
    p = np.array(case['p'], float)
    eps = case['eps']
    calls = []

    def f(x):
        x = np.asarray(x, float)
        calls.append(x.copy())
        return 0.5 * x @ A @ x + b @ x + c
    h, one = steps(p, eps)
    rec.case(case, case['n'] >= 2 or any(one), ['linear' if case['linear'] else 'quadratic', case.get('container', 'floats')])
    with dadi_call('get_grad'):
        g = np.asarray(Godambe.get_grad(f, as_given(case), eps)).ravel()
    exact = A @ p + b
    fscale = max(abs(0.5 * x @ A @ x + b @ x + c) for x in calls) + 1.0
    for i in range(case['n']):
        central = (p[i] != 0 and not one[i])
        if not central and not case['linear']:
            continue
        tol = 1000 * np.finfo(float).eps * fscale / abs(h[i]) + 1e-12 * (np.abs(exact).max() + 1)
        if abs(g[i] - exact[i]) > tol:
            raise Violation('gradient component %d of a %s function = %r, exact %r (%s stencil, p=%r, eps=%g)'
                            % (i, 'linear' if case['linear'] else 'quadratic', float(g[i]), float(exact[i]),
                               'central' if central else 'one-sided', list(p), eps))


# ----------------------------------------------------------------------------- R3 closed-form information
@st.composite
def poisson_case(draw):
    k = draw(st.integers(1, 4))
    n = draw(st.integers(max(4, k + 2), 12))
    log = draw(st.booleans())
    # log mode differentiates w.r.t. log(p): keep log(p) comfortably positive so the central stencil is used
    return dict(k=k, n=n, seed=draw(st.integers(0, 2 ** 31 - 1)), p=[draw(st.floats(1.5, 5.0) if log else st.floats(0.2, 5.0)) for _ in range(k)],
                eps=math.exp(draw(st.floats(math.log(1e-3), math.log(5e-2)))), nboot=draw(st.integers(max(4, k + 2), 8)),
                multinom=draw(st.booleans()), log=log, perm_seed=draw(st.integers(0, 2 ** 31 - 1)),
                nested=sorted(draw(st.lists(st.integers(0, k - 1), min_size=1, max_size=k, unique=True))),
                off_mle=draw(st.floats(0.0, 0.2)),
                # relative theta of each bootstrap (boot_theta_adjusts; only meaningful without multinom): up to 8 values
                adjusts=[draw(st.sampled_from([0.7, 0.85, 1.0, 1.15, 1.3])) for _ in range(8)] if draw(st.booleans()) else None)


class LinModel:
    """M(p) = B0 + sum_k p_k B_k (affine, so an overall scale is not confounded with the parameters), optionally times theta."""

    def __init__(self, case):
        rs = np.random.RandomState(case['seed'])
        self.k, self.n = case['k'], case['n']
        sc = rs.uniform(5, 40)
        self.B = np.exp(rs.normal(0.0, 1.2, (self.k, self.n + 1))) * sc      # log-normal entries: well separated basis spectra
        self.B0 = rs.uniform(0.5, 3.0, self.n + 1) * sc
        self.inner = slice(1, self.n)          # corners are masked
        p = np.array(case['p'])
        mean = (self.B0 + p @ self.B) * (3.0 if case['multinom'] else 1.0)    # theta_opt ~ 3 under multinom (log(theta) safely > 0)
        self.data = rs.poisson(mean * (1 + case['off_mle'] * rs.uniform(-1, 1, self.n + 1))).astype(float)
        self.adjusts = None
        if case.get('adjusts') and not case['multinom']:
            self.adjusts = [float(a) for a in case['adjusts'][:case['nboot']]]
        self.boots = [rs.poisson(mean * (self.adjusts[i] if self.adjusts else 1.0)).astype(float) for i in range(case['nboot'])]

    def func(self, params, ns, pts):
        params = np.asarray(params, float)
        return dadi.Spectrum(self.B0 + params @ self.B)

    # analytic pieces on interior entries; q = full parameter vector (with theta last when multinom)
    def M(self, q, multinom):
        if multinom:
            return q[-1] * (self.B0 + q[:-1] @ self.B)[self.inner]
        return (self.B0 + q @ self.B)[self.inner]

    def dM(self, q, multinom):
        B = self.B[:, self.inner]
        if multinom:
            return np.vstack([q[-1] * B, (self.B0[self.inner] + q[:-1] @ B)[None, :]])
        return B

    def d2M(self, q, multinom):
        B = self.B[:, self.inner]
        m = len(q)
        out = np.zeros((m, m, B.shape[1]))
        if multinom:
            for a in range(self.k):
                out[a, m - 1] = B[a]
                out[m - 1, a] = B[a]
        return out

    def grad_hess(self, q, D, multinom, theta_adjust=1.0):
        D = D[self.inner]
        M = theta_adjust * self.M(q, multinom)
        dM = theta_adjust * self.dM(q, multinom)
        d2 = theta_adjust * self.d2M(q, multinom)
        r = D / M - 1.0
        g = dM @ r
        H = np.einsum('i,kli->kl', r, d2) - np.einsum('i,ki,li->kl', D / M ** 2, dM, dM)
        return g, H


def closed_forms(model, case, q, subset=None, log=False, use_adjusts=True):
    multinom = case['multinom']
    g, Hll = model.grad_hess(q, model.data, multinom)
    idx = list(range(len(q))) if subset is None else list(subset)
    if log:
        P = np.diag(q)
        Hll = P @ Hll @ P + np.diag(q * g)
    H = -Hll[np.ix_(idx, idx)]
    Us = []
    for bi, b in enumerate(model.boots):
        gb, _ = model.grad_hess(q, b, multinom, theta_adjust=(model.adjusts[bi] if (model.adjusts and use_adjusts) else 1.0))
        if log:
            gb = q * gb
        Us.append(gb[idx])
    Us = np.array(Us)
    J = sum(np.outer(u, u) for u in Us) / len(Us)
    cU = Us.mean(axis=0)
    GIM = H @ np.linalg.inv(J) @ H
    return H, J, cU, GIM


@REG.relation('R3-poisson-closed-forms', strategy=poisson_case, quick=(1200, 16), thorough=(10000, 16))
def r3(case, rec):
    """FIM/GIM uncertainties, LRT adjustment, Wald and score statistics for Poisson models linear in their parameters equal their
    closed forms within O(eps^2) and do not depend on the order of the bootstraps."""
    model = LinModel(case)
    k, eps, multinom, log = case['k'], case['eps'], case['multinom'], case['log']
    p0 = list(case['p'])
    data = dadi.Spectrum(model.data)
    boots = [dadi.Spectrum(b) for b in model.boots]
    ns, pts = [case['n']], [20]
    if multinom:
        Mp = (model.B0 + np.array(p0) @ model.B)[model.inner]
        theta = model.data[model.inner].sum() / Mp.sum()
        q = np.array(p0 + [theta])
    else:
        q = np.array(p0)
    rec.case(case, k >= 2, ['k=%d' % k, 'multinom' if multinom else 'poisson', 'log' if log else 'linear-scale', 'theta-adjusts' if model.adjusts else 'no-adjusts'])
    tol = 20 * eps ** 2 + 1e-7
    adjkw = dict(boot_theta_adjusts=list(model.adjusts)) if model.adjusts else {}
    Godambe.cache.clear()
    try:
        H, J, cU, GIM = closed_forms(model, case, q, log=log)
    except np.linalg.LinAlgError:
        raise Reject()
    try:
        with dadi_call('FIM_uncert'):
            fim = Godambe.FIM_uncert(model.func, pts, p0, data, log=log, multinom=multinom, eps=eps)
        with dadi_call('GIM_uncert'):
            gim, G_mat, H_mat = Godambe.GIM_uncert(model.func, pts, boots, p0, data, log=log, multinom=multinom, eps=eps, return_GIM=True, **adjkw)
    except Violation as v:
        if 'LinAlgError' in v.msg:
            raise Reject()
        raise
    e_fim = np.sqrt(np.diag(np.linalg.inv(H)))
    e_gim = np.sqrt(np.diag(np.linalg.inv(GIM)))
    if not (np.isfinite(e_fim).all() and np.isfinite(e_gim).all()) or np.linalg.cond(J) > 300 or np.linalg.cond(H) > 300:
        raise Reject()     # ill-conditioned information matrices amplify the O(eps^2) stencil error arbitrarily
    cH, cJ = np.linalg.cond(H), np.linalg.cond(J)
    require_close(H_mat, H, tol * np.linalg.cond(H) ** 0 , 'observed information (Hessian of -ll)', rec, key='H', atol=tol * np.abs(H).max())
    require_close(fim, e_fim, tol * (2 + cH), 'FIM_uncert vs closed form', rec, key='FIM', atol=0)
    require_close(gim, e_gim, tol * (5 + 2 * cH + 2 * cJ), 'GIM_uncert vs closed form', rec, key='GIM', atol=0)
    # bootstrap order
    rs = np.random.RandomState(case['perm_seed'])
    perm = rs.permutation(len(boots))
    with dadi_call('GIM_uncert (permuted bootstraps)'):
        gim2 = Godambe.GIM_uncert(model.func, pts, [boots[i] for i in perm], p0, data, log=log, multinom=multinom, eps=eps,
                                  **(dict(boot_theta_adjusts=[model.adjusts[i] for i in perm]) if model.adjusts else {}))
    require_close(gim2, gim, 1e-9, 'GIM_uncert with the bootstraps in another order', rec, key='boot-order')
    # nested-parameter statistics (always on the natural scale)
    nested = case['nested']
    Hn, Jn, cUn, Gn = closed_forms(model, case, q, subset=nested, log=False)
    if np.linalg.cond(Jn) > 300 or np.linalg.cond(Hn) > 300:
        return
    cHn, cJn = np.linalg.cond(Hn), np.linalg.cond(Jn)
    with dadi_call('LRT_adjust'):
        adj = Godambe.LRT_adjust(model.func, pts, boots, p0, data, nested, multinom=multinom, eps=eps, **adjkw)
    e_adj = len(nested) / np.trace(Jn @ np.linalg.inv(Hn))
    require_close(adj, e_adj, tol * (5 + 2 * cHn + 2 * cJn), 'LRT_adjust vs closed form', rec, key='LRT')
    if model.adjusts:
        # Wald_stat and score_stat do not take boot_theta_adjusts: their closed forms use unadjusted bootstrap scores
        Hn, Jn, cUn, Gn = closed_forms(model, case, q, subset=nested, log=False, use_adjusts=False)
        if np.linalg.cond(Jn) > 300 or np.linalg.cond(Hn) > 300:
            return
        cHn, cJn = np.linalg.cond(Hn), np.linalg.cond(Jn)
    full = list(np.array(p0) * (1 + 0.1 * rs.uniform(-1, 1, k)))
    with dadi_call('Wald_stat'):
        w_adj, w_org = Godambe.Wald_stat(model.func, pts, boots, p0, data, nested, full, multinom=multinom, eps=eps, adj_and_org=True)
    diff = np.array(full)[nested] - np.array(p0)[nested]
    require_close(w_adj, diff @ Gn @ diff, 0.0, 'adjusted Wald statistic vs closed form', rec, key='Wald adj', atol=tol * (5 + 2 * cHn + 2 * cJn) * float(np.abs(diff) @ np.abs(Gn) @ np.abs(diff)))
    require_close(w_org, diff @ Hn @ diff, 0.0, 'unadjusted Wald statistic vs closed form', rec, key='Wald org', atol=tol * 5 * float(np.abs(diff) @ np.abs(Hn) @ np.abs(diff)))
    with dadi_call('score_stat'):
        s_adj, s_org = Godambe.score_stat(model.func, pts, boots, p0, data, nested, multinom=multinom, eps=eps, adj_and_org=True)
    e_s_adj = cUn @ np.linalg.inv(Jn) @ cUn
    e_s_org = cUn @ np.linalg.inv(Hn) @ cUn
    # finite-difference error is relative to the individual bootstrap scores, which largely cancel in their mean cU
    Us = []
    for b in model.boots:
        gb, _ = model.grad_hess(q, b, multinom)
        Us.append(gb[nested])
    sc = max(np.mean([u @ np.linalg.inv(Jn) @ u for u in Us]), np.mean([abs(u @ np.linalg.inv(Hn) @ u) for u in Us]), 1e-6)
    require_close(s_adj, e_s_adj, 0.0, 'adjusted score statistic vs closed form', rec, key='score adj', atol=tol * (10 + 5 * cHn + 5 * cJn) * sc + 1e-9)
    require_close(s_org, e_s_org, 0.0, 'unadjusted score statistic vs closed form', rec, key='score org', atol=tol * (10 + 5 * cHn + 5 * cJn) * sc + 1e-9)


# ----------------------------------------------------------------------------- R4 chi-square mixtures
@st.composite
def chi2_case(draw):
    m = draw(st.integers(1, 4))
    w = [draw(st.floats(0.0, 1.0)) for _ in range(m + 1)]
    if sum(w) == 0:
        w[1] = 1.0
    s = sum(w)
    w = [x / s for x in w]
    xs = draw(st.lists(st.one_of(st.floats(0.0, 30.0), st.just(0.0)), min_size=1, max_size=6))
    return dict(w=w, xs=xs, as_list=draw(st.booleans()))


@REG.relation('R4-sum-chi2', strategy=chi2_case, quick=(1500, 4), thorough=(15000, 8))
def r4(case, rec):
    """sum_chi2_ppf: arrays and scalars agree elementwise; value = 1 - sum_d w_d cdf_d(x) with chi2_0 a point mass at 0."""
    import scipy.stats
    w, xs = case['w'], case['xs']
    rec.case(case, len(xs) >= 2, ['n=%d' % len(xs)])
    arr_in = list(xs) if case['as_list'] else np.array(xs)
    with dadi_call('sum_chi2_ppf(array)'):
        arr = np.asarray(Godambe.sum_chi2_ppf(arr_in, weights=tuple(w)))
    require(arr.shape == (len(xs),), 'array input of length %d gave shape %s' % (len(xs), arr.shape))
    for i, x in enumerate(xs):
        with dadi_call('sum_chi2_ppf(scalar)'):
            sc = Godambe.sum_chi2_ppf(float(x), weights=tuple(w))
        require(np.ndim(sc) == 0, 'scalar input gave a non-scalar result')
        exp = 1.0 - (sum(wd * scipy.stats.chi2.cdf(x, d) for d, wd in enumerate(w) if d >= 1) + (w[0] if x > 0 else 0.0))
        require(abs(float(sc) - exp) <= 1e-12, 'sum_chi2_ppf(%r) = %r, expected %r' % (x, float(sc), exp))
        require(abs(float(arr[i]) - float(sc)) <= 1e-15, 'array element %d (%r) differs from the scalar evaluation (%r)' % (i, float(arr[i]), float(sc)))
    try:
        Godambe.sum_chi2_ppf(1.0, weights=(0.5, 0.2))
    except ValueError:
        pass
    else:
        raise Violation('weights not summing to one were accepted')


# ----------------------------------------------------------------------------- R5 histories over the shared cache
STATS = ['FIM', 'GIM', 'LRT', 'Wald', 'score']


@st.composite
def history_case(draw):
    base = draw(poisson_case())
    base['k'] = max(base['k'], 2)
    base['p'] = (base['p'] + [1.0, 2.0])[:base['k']]
    base['nested'] = [n for n in base['nested'] if n < base['k']] or [0]
    # a call = (statistic, model variant, multinom, grid setting, bootstrap theta adjustments on/off)
    calls = draw(st.lists(st.tuples(st.sampled_from(STATS), st.integers(0, 2), st.booleans(), st.sampled_from([20, 20, 35]), st.booleans()),
                          min_size=2, max_size=8))
    # shared: a variant is ONE function object used by all its calls (a model defined once at module level); otherwise every call
    # gets a new function object (a closure rebuilt each time), which is what exposes caches keyed on object identity
    return dict(base=base, calls=[list(c) for c in calls], collect=draw(st.booleans()), shared=draw(st.booleans()))


def run_stat(kind, func, model, case, multinom, pts=20, adjust=False):
    p0 = list(case['p'])
    data = dadi.Spectrum(model.data)
    boots = [dadi.Spectrum(b) for b in model.boots]
    pts, eps, nested = [pts], case['eps'], case['nested']
    adj = dict(boot_theta_adjusts=[0.8 + 0.1 * (i % 5) for i in range(len(boots))]) if (adjust and not multinom) else {}
    if kind == 'FIM':
        return Godambe.FIM_uncert(func, pts, p0, data, multinom=multinom, eps=eps)
    if kind == 'GIM':
        return Godambe.GIM_uncert(func, pts, boots, p0, data, multinom=multinom, eps=eps, **adj)
    if kind == 'LRT':
        return Godambe.LRT_adjust(func, pts, boots, p0, data, nested, multinom=multinom, eps=eps, **adj)
    if kind == 'Wald':
        full = [v * 1.07 for v in p0]
        return Godambe.Wald_stat(func, pts, boots, p0, data, nested, full, multinom=multinom, eps=eps)
    return Godambe.score_stat(func, pts, boots, p0, data, nested, multinom=multinom, eps=eps)


@REG.relation('R5-history-independence', strategy=history_case, quick=(250, 16), thorough=(5000, 16))
def r5(case, rec):
    """Any sequence of statistics over model functions sharing (p0, ns) - different function objects or the same one, the same
    grid setting or another, with or without bootstrap theta adjustments: each call returns what it returns on an empty cache (the
    module-level spectrum cache is transparent)."""
    base = case['base']
    model = LinModel(base)

    def make(variant):
        scale = [1.0, 1.35, 0.6][variant]

        def f(params, ns, pts):
            # (1 + 5/pts): a dependence on the grid setting, as every real model has
            return dadi.Spectrum((scale * (model.B0 + np.asarray(params, float) @ model.B) + variant) * (1.0 + 5.0 / float(np.atleast_1d(pts)[0])))
        return f
    calls = [(list(c) + [20, False])[:5] for c in case['calls']]
    shared = {}
    if case.get('shared'):
        shared = {v: make(v) for v in range(3)}
    nvar = len(set(c[1] for c in calls))
    rec.case(case, nvar >= 2 or len(set(c[3] for c in calls)) >= 2, ['variants=%d' % nvar, 'len=%d' % len(calls), 'shared functions' if shared else 'fresh functions',
                                                                      'grids=%d' % len(set(c[3] for c in calls))])
    # reference values: each call on an empty cache
    ref = []
    for kind, variant, multinom, pts, adjust in calls:
        Godambe.cache.clear()
        try:
            with dadi_call(kind):
                ref.append(np.asarray(run_stat(kind, make(variant), model, base, multinom, pts, adjust), float))
        except Violation as v:
            if 'LinAlgError' in v.msg:
                raise Reject()
            raise
    Godambe.cache.clear()
    for i, (kind, variant, multinom, pts, adjust) in enumerate(calls):
        f = shared.get(variant) or make(variant)
        with dadi_call(kind):
            got = np.asarray(run_stat(kind, f, model, base, multinom, pts, adjust), float)
        del f
        if case['collect']:
            gc.collect()
        if not np.allclose(got, ref[i], rtol=1e-10, atol=0, equal_nan=True):
            raise Violation('call %d of the history (%s, model variant %d, multinom=%s, pts=%d, theta adjustments=%s, %s function objects) returned %r, '
                            'but %r on an empty cache; earlier calls: %r' % (i, kind, variant, multinom, pts, adjust, 'shared' if shared else 'fresh',
                                                                             got.tolist(), ref[i].tolist(), calls[:i]),
                            finding='stale-cache')
    Godambe.cache.clear()
