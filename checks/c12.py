"""C12 - optimisers honour bounds and fixed parameters and report the point they found."""
import logging
import math

import numpy as np
from hypothesis import strategies as st

import dadi
from dadi import Inference, Misc
from harness.core import Registry, Violation, Reject, dadi_call, require, require_close

logging.getLogger('Inference').setLevel(logging.CRITICAL)

REG = Registry(
    'C12',
    rule=('cases = (optimiser among opt[BOBYQA], opt[COBYLA], opt[NELDERMEAD], optimize, optimize_log, optimize_lbfgsb, '
          'optimize_log_lbfgsb, optimize_log_fmin, optimize_log_powell, optimize_cons, optimize_log_resid, optimize_grid; synthetic smooth model with 1-4 '
          'parameters; box bounds; start anywhere in the closed box (incl. on a bound); any subset of fixed parameters; multinom on/off; '
          'log_opt on/off; small evaluation budgets). Every model evaluation is recorded by a wrapper. Non-trivial = >=2 parameters and '
          '(a fixed parameter or a start within 1e-3 of a bound). Distinct by hash of the case.'),
    assumptions=['the synthetic model is a positive smooth function of its parameters, so any in-bounds evaluation is valid',
                 'reported optimum is compared with the likelihood re-evaluated at the returned parameters (1e-8 relative)'])

NLOPT_ALGS = ['LN_BOBYQA', 'LN_COBYLA', 'LN_NELDERMEAD']
SCIPY = ['optimize', 'optimize_log', 'optimize_lbfgsb', 'optimize_log_lbfgsb', 'optimize_log_fmin', 'optimize_log_powell', 'optimize_cons',
         'optimize_log_resid']


@st.composite
def opt_case(draw, optimisers=None):
    k = draw(st.integers(1, 4))
    which = draw(st.sampled_from(optimisers or (['opt:' + a for a in NLOPT_ALGS] + SCIPY)))
    lo = [draw(st.floats(0.05, 1.0)) for _ in range(k)]
    hi = [l * draw(st.floats(2.0, 30.0)) for l in lo]
    start = []
    for l, h in zip(lo, hi):
        m = draw(st.sampled_from(['inside', 'inside', 'inside', 'near-lo', 'near-hi', 'on-lo', 'on-hi']))
        if m == 'inside':
            start.append(l + (h - l) * draw(st.floats(0.05, 0.95)))
        elif m == 'near-lo':
            start.append(l * (1 + 1e-4))
        elif m == 'near-hi':
            start.append(h * (1 - 1e-4))
        elif m == 'on-lo':
            start.append(l)
        else:
            start.append(h)
    truth = [l + (h - l) * draw(st.floats(0.1, 0.9)) for l, h in zip(lo, hi)]
    fixed = [draw(st.sampled_from([False, False, True])) for _ in range(k)]
    if all(fixed):
        fixed[draw(st.integers(0, k - 1))] = False
    fixed_vals = [l + (h - l) * draw(st.floats(0.1, 0.9)) if f else None for f, l, h in zip(fixed, lo, hi)]
    return dict(k=k, which=which, lo=lo, hi=hi, start=start, truth=truth, fixed=fixed_vals if any(fixed) else None,
                multinom=draw(st.booleans()), log_opt=draw(st.booleans()), seed=draw(st.integers(0, 2 ** 31 - 1)),
                budget=draw(st.sampled_from([5, 20, 60])), n=draw(st.integers(6, 14)))


class Model:
    def __init__(self, case):
        rs = np.random.RandomState(case['seed'])
        k, n = case['k'], case['n']
        self.base = 50.0 / np.arange(1, n + 2)
        self.U = rs.uniform(0.0, 1.0, (k, n + 1))
        self.log = []

    def __call__(self, params, ns, pts):
        p = np.array(params, dtype=float)
        self.log.append(p.copy())
        val = self.base * np.exp(-0.5 * (np.log(np.maximum(p, 1e-300))[:, None] * self.U).sum(axis=0) ** 2 / (1 + self.U.sum(axis=0))) \
            * (1 + (p[:, None] * self.U).sum(axis=0) / 10.0)
        return dadi.Spectrum(val)

    def quiet(self, params):
        p = np.array(params, dtype=float)
        val = self.base * np.exp(-0.5 * (np.log(np.maximum(p, 1e-300))[:, None] * self.U).sum(axis=0) ** 2 / (1 + self.U.sum(axis=0))) \
            * (1 + (p[:, None] * self.U).sum(axis=0) / 10.0)
        return dadi.Spectrum(val)


def likelihood(model, params, data, multinom):
    fs = model.quiet(params)
    return float(Inference.ll_multinom(fs, data) if multinom else Inference.ll(fs, data))


def resid_target(case, model, data):
    mid = [0.5 * (l + h) for l, h in zip(case['lo'], case['hi'])]
    if case['fixed']:
        mid = [f if f is not None else v for v, f in zip(mid, case['fixed'])]
    return Inference.Anscombe_Poisson_residual(model.quiet(mid), data)


def resid_objective(model, params, data):
    r = model.target - Inference.Anscombe_Poisson_residual(model.quiet(params), data)
    r = np.where(np.ma.getmaskarray(r), 0.0, np.ma.getdata(r))
    return float(np.sum(r ** 2))


def full_start(case):
    s = list(case['start'])
    if case['fixed']:
        s = [f if f is not None else v for v, f in zip(s, case['fixed'])]
    return s


def run_optimiser(case, model, data):
    """returns (xopt, reported_ll or None)"""
    which = case['which']
    p0, lo, hi, fixed = list(case['start']), list(case['lo']), list(case['hi']), case['fixed']
    fixed = list(fixed) if fixed else None
    pts = [20]
    budget = case['budget']
    if which.startswith('opt:'):
        import nlopt
        alg = getattr(nlopt, which.split(':')[1])
        xopt, ll_opt = dadi.Inference.opt(p0, data, model, pts, multinom=case['multinom'], lower_bound=lo, upper_bound=hi,
                                          fixed_params=fixed, algorithm=alg, maxeval=budget, log_opt=case['log_opt'])
        return np.asarray(xopt, float), float(ll_opt)
    f = getattr(Inference, which)
    kw = dict(lower_bound=lo, upper_bound=hi, multinom=case['multinom'], fixed_params=fixed, maxiter=max(2, budget // 5), full_output=True)
    if which == 'optimize_log_resid':
        # fits the model's Anscombe residuals to a target residual spectrum (here: those of the model at the centre of the box);
        # the reported optimum is the sum of squared residual differences, returned as it is (smaller is better)
        model.target = resid_target(case, model, data)
        out = f(p0, data, model, model.target, pts, **kw)
        return np.asarray(out[0], float), float(out[1])
    out = f(p0, data, model, pts, **kw)
    xopt, fopt = out[0], out[1]
    return np.asarray(xopt, float), -float(fopt)


def _nt(case):
    near = any(min(abs(s - l) / l, abs(s - h) / h) < 1e-3 for s, l, h in zip(case['start'], case['lo'], case['hi']))
    return case['k'] >= 2 and (case['fixed'] is not None or near)


@REG.relation('R1-optimisers', strategy=opt_case, quick=(700, 16), thorough=(15000, 16))
def r1(case, rec):
    """First evaluation = start; no evaluation outside the bounds; fixed parameters returned unchanged and free ones within bounds;
    likelihood at the returned point = reported optimum (and, for opt, >= the start's)."""
    model = Model(case)
    truth = list(case['truth'])
    if case['fixed']:
        truth = [f if f is not None else t for t, f in zip(truth, case['fixed'])]
    data = model.quiet(truth) * (2.5 if case['multinom'] else 1.0)
    which = case['which']
    if which.startswith('optimize_log'):
        # these wrappers evaluate at exp(log(p0)), which may differ from p0 by one ulp: a start exactly on a bound cannot satisfy
        # both 'evaluate at the start' and 'never outside the bounds', so starts are kept a relative 1e-9 inside
        case = dict(case, start=[min(max(s_, l * (1 + 1e-9)), h * (1 - 1e-9)) for s_, l, h in zip(case['start'], case['lo'], case['hi'])])
    sig = dict(optimiser=which, log_opt=bool(case['log_opt']) if which.startswith('opt:') else None)
    rec.case(case, _nt(case), [which, 'fixed' if case['fixed'] else 'nofixed', 'multinom' if case['multinom'] else 'poisson'] +
             (['log_opt'] if case['log_opt'] and which.startswith('opt:') else []))
    lo_before, hi_before, p0_before = list(case['lo']), list(case['hi']), list(case['start'])
    with dadi_call(which, **sig):
        xopt, reported = run_optimiser(case, model, data)
    start = np.array(full_start(case))
    lo, hi = np.array(case['lo']), np.array(case['hi'])
    require(len(model.log) >= 1, '%s never evaluated the model' % which, **sig)
    first = model.log[0]
    require(np.allclose(first, start, rtol=1e-12, atol=0), '%s first evaluated the model at %r, not at the starting point %r'
            % (which, first.tolist(), start.tolist()), **sig)
    for p in model.log:
        out = (p < lo * (1 - 1e-12)) | (p > hi * (1 + 1e-12))
        if case['fixed']:
            out &= np.array([f is None for f in case['fixed']])
        require(not out.any(), '%s evaluated the model outside the bounds at %r (bounds %r .. %r)' % (which, p.tolist(), lo.tolist(), hi.tolist()), **sig)
        if case['fixed']:
            for v, f in zip(p, case['fixed']):
                require(f is None or v == f, '%s evaluated the model with a fixed parameter changed: %r (fixed %r)' % (which, p.tolist(), case['fixed']), **sig)
    require(xopt.shape == (case['k'],), '%s returned %d parameters for a %d-parameter model' % (which, xopt.size, case['k']), **sig)
    if np.isnan(xopt).any():
        # documented NLopt round-off failure path (-inf likelihood, NaN for the free parameters): fixed parameters still come back
        if case['fixed']:
            for i, fv in enumerate(case['fixed']):
                require(fv is None or xopt[i] == fv, '%s gave up (round-off) and returned fixed parameter %d as %r, not %r' % (which, i, xopt[i], fv), **sig)
        raise Reject()
    for i, (v, l, h) in enumerate(zip(xopt, lo, hi)):
        if case['fixed'] and case['fixed'][i] is not None:
            require(v == case['fixed'][i], '%s returned fixed parameter %d as %r, not %r' % (which, i, v, case['fixed'][i]), **sig)
        elif not (l * (1 - 1e-9) <= v <= h * (1 + 1e-9)):
            # a penalty-based wrapper that stops on an out-of-bounds trial point reports the penalty itself as the optimum
            esc = dict(finding='penalty-escape') if (which in SCIPY and (reported <= -1e7 or (which == 'optimize_log_resid' and reported >= 1e7))) else {}
            raise Violation('%s returned parameter %d = %r outside its bounds [%r, %r] (reported optimum %r)' % (which, i, v, l, h, reported), **dict(sig, **esc))
    if which == 'optimize_log_resid':
        obj = resid_objective(model, xopt, data)
        require(abs(obj - reported) <= 1e-8 * (abs(reported) + 1), '%s reports objective %r but the squared residual difference at the returned parameters %r is %r'
                % (which, reported, xopt.tolist(), obj), **sig)
        require(list(case['lo']) == lo_before and list(case['hi']) == hi_before and list(case['start']) == p0_before, 'optimiser modified its list arguments')
        return
    ll_at = likelihood(model, xopt, data, case['multinom'])
    require(abs(ll_at - reported) <= 1e-8 * (abs(reported) + 1), '%s reports optimum likelihood %r but the likelihood at the returned parameters %r is %r'
            % (which, reported, xopt.tolist(), ll_at), **sig)
    if which == 'opt:LN_BOBYQA':
        # 'the primary optimiser' is opt() with its default algorithm; COBYLA and Nelder-Mead return their current iterate, not the
        # best point seen, when a tiny evaluation budget runs out (NLopt's documented behaviour), so no monotonicity is asked of them
        ll_start = likelihood(model, start, data, case['multinom'])
        require(ll_at >= ll_start - 1e-8 * (abs(ll_start) + 1), 'opt returned a point with likelihood %r, worse than the starting point %r' % (ll_at, ll_start), **sig)
    require(list(case['lo']) == lo_before and list(case['hi']) == hi_before and list(case['start']) == p0_before, 'optimiser modified its list arguments')


@st.composite
def grid_case(draw):
    c = draw(opt_case(optimisers=['optimize_grid']))
    c['npts'] = [draw(st.integers(2, 4)) for _ in range(c['k'])]
    # the grid given with whole-number bounds and steps (index_exp[1:6:1]): scipy's brute then hands integer arrays to the objective
    c['intgrid'] = draw(st.sampled_from([False, False, True]))
    if c['intgrid']:
        c['ilo'] = [draw(st.integers(1, 3)) for _ in range(c['k'])]
        c['istep'] = [draw(st.integers(1, 2)) for _ in range(c['k'])]
    return c


@REG.relation('R2-grid-search', strategy=grid_case, quick=(200, 8), thorough=(3000, 8))
def r2(case, rec):
    """optimize_grid: evaluates only grid points, keeps fixed parameters, returns the best grid point and its likelihood."""
    model = Model(case)
    truth = list(case['truth'])
    fixed = case['fixed']
    if fixed:
        truth = [f if f is not None else t for t, f in zip(truth, fixed)]
    data = model.quiet(truth) * (2.5 if case['multinom'] else 1.0)
    free = [i for i in range(case['k']) if not fixed or fixed[i] is None]
    if case.get('intgrid'):
        grid = tuple(slice(case['ilo'][i], case['ilo'][i] + case['istep'][i] * case['npts'][i], case['istep'][i]) for i in free)
        axes = [np.arange(g.start, g.stop, g.step).astype(float) for g in grid]
    else:
        grid = tuple(slice(case['lo'][i], case['hi'][i], complex(0, case['npts'][i])) for i in free)
        axes = [np.linspace(case['lo'][i], case['hi'][i], case['npts'][i]) for i in free]
    rec.case(case, case['k'] >= 2, ['fixed' if fixed else 'nofixed', 'integer grid' if case.get('intgrid') else 'float grid'])
    with dadi_call('optimize_grid'):
        xopt, fopt, g, fout, thetas = Inference.optimize_grid(data, model, [20], grid, multinom=case['multinom'],
                                                              fixed_params=list(fixed) if fixed else None, full_output=True)
    xopt = np.atleast_1d(np.asarray(xopt, float))
    for p in model.log:
        for j, i in enumerate(free):
            require(np.abs(axes[j] - p[i]).min() <= 1e-12 * abs(p[i]) + 1e-300, 'optimize_grid evaluated off-grid value %r for parameter %d' % (p[i], i))
        if fixed:
            for v, f in zip(p, fixed):
                require(f is None or v == f, 'optimize_grid changed a fixed parameter')
    best = max(likelihood(model, p, data, case['multinom']) for p in model.log)
    ll_at = likelihood(model, xopt, data, case['multinom'])
    require(abs(ll_at - best) <= 1e-9 * (abs(best) + 1), 'optimize_grid returned a point with likelihood %r, best grid point has %r' % (ll_at, best))
    require(abs(-float(fopt) - ll_at) <= 1e-8 * (abs(ll_at) + 1), 'optimize_grid reports %r but likelihood at the returned point is %r' % (-float(fopt), ll_at))
    if case['multinom']:
        # reported thetas = optimal scaling at each grid point
        th = Inference.optimal_sfs_scaling(model.quiet(xopt), data)
        require(np.isclose(thetas, float(th), rtol=1e-9).any(), 'thetas returned by optimize_grid do not contain the optimum theta %r' % float(th))


@st.composite
def project_case(draw):
    k = draw(st.integers(1, 6))
    vals = [draw(st.floats(-100, 100)) for _ in range(k)]
    fixed = [draw(st.one_of(st.none(), st.floats(-100, 100))) for _ in range(k)]
    if all(f is not None for f in fixed):
        fixed[draw(st.integers(0, k - 1))] = None
    # the free values as a list of floats, a float array, a tuple, or whole numbers given as Python ints / an integer array
    form = draw(st.sampled_from(['list', 'list', 'array', 'tuple', 'ints', 'int-array']))
    if form in ('ints', 'int-array'):
        vals = [float(draw(st.integers(-100, 100))) for _ in range(k)]
    return dict(vals=vals, fixed=fixed, nofixed=draw(st.sampled_from([False, False, True])), form=form)


def _as_form(vals, form):
    if form == 'array':
        return np.array(vals, dtype=float)
    if form == 'tuple':
        return tuple(vals)
    if form == 'ints':
        return [int(v) for v in vals]
    if form == 'int-array':
        return np.array([int(v) for v in vals])
    return list(vals)


@REG.relation('R3-project-params', strategy=project_case, quick=(2000, 2), thorough=(20000, 4))
def r3(case, rec):
    """_project_params_down / _project_params_up are mutually inverse around the fixed values."""
    vals = list(case['vals'])
    fixed = None if case['nofixed'] else list(case['fixed'])
    form = case.get('form', 'list')
    rec.case(case, fixed is not None and any(f is not None for f in fixed), ['fixed' if fixed else 'nofixed', form])
    with dadi_call('_project_params_down/up'):
        down = Inference._project_params_down(_as_form(vals, form), fixed)
        up = Inference._project_params_up(down, fixed)
        if fixed:
            # the free values handed to up() directly in the chosen form (what an optimiser or a grid search passes)
            up2 = Inference._project_params_up(_as_form([v for v, f in zip(vals, fixed) if f is None], form), fixed)
            require(list(np.asarray(up2, float)) == [f if f is not None else v for v, f in zip(vals, fixed)],
                    'up(free values as %s) = %r (fixed %r)' % (form, list(np.asarray(up2, float)), fixed))
    exp = [f if (fixed and f is not None) else v for v, f in zip(vals, fixed or [None] * len(vals))]
    require(list(np.asarray(up, float)) == exp, 'up(down(p)) = %r, expected %r (fixed %r)' % (list(up), exp, fixed))
    if fixed:
        nfree = sum(f is None for f in fixed)
        require(len(down) == nfree, 'down() kept %d values for %d free parameters' % (len(down), nfree))
        with dadi_call('_project_params_down(up)'):
            d2 = Inference._project_params_down(up, fixed)
        require(list(np.asarray(d2, float)) == list(np.asarray(down, float)), 'down(up(q)) != q')
        try:
            Inference._project_params_down(vals + [1.0], fixed)
        except ValueError:
            pass
        else:
            raise Violation('length mismatch between parameters and fixed_params accepted')


@st.composite
def perturb_case(draw):
    k = draw(st.integers(1, 5))
    sign = [draw(st.sampled_from([1, 1, -1])) for _ in range(k)]
    mag = [draw(st.floats(0.01, 100.0)) for _ in range(k)]
    params = [s * m for s, m in zip(sign, mag)]
    lo, hi = [], []
    for p in params:
        a = abs(p)
        # the helper keeps results 1% of |bound| inside each bound, so the box must be wider than that
        l = p - a * draw(st.floats(0.1, 3.0))
        h = p + a * draw(st.floats(0.1, 3.0))
        lo.append(draw(st.sampled_from([l, l, None])))
        hi.append(draw(st.sampled_from([h, h, None])))
    return dict(params=params, lo=lo, hi=hi, fold=draw(st.sampled_from([1, 2, 3])), seed=draw(st.integers(0, 2 ** 31 - 1)),
                use_lo=draw(st.booleans()), use_hi=draw(st.booleans()))


@REG.relation('R4-perturb-params', strategy=perturb_case, quick=(2000, 4), thorough=(30000, 8))
def r4(case, rec):
    """perturb_params: results stay within the given bounds (also negative bounds), have the right length, and the caller's lists
    are not modified."""
    params = np.array(case['params'], float)
    lo = list(case['lo']) if case['use_lo'] else None
    hi = list(case['hi']) if case['use_hi'] else None
    lo0, hi0 = (list(lo) if lo is not None else None), (list(hi) if hi is not None else None)
    neg = bool((params < 0).any())
    rec.case(case, (lo is not None or hi is not None), ['negative-params' if neg else 'positive-params', 'fold=%d' % case['fold']])
    np.random.seed(case['seed'])
    with dadi_call('perturb_params'):
        out = np.asarray(Misc.perturb_params(params, fold=case['fold'], lower_bound=lo, upper_bound=hi), float)
    require(out.shape == params.shape, 'perturb_params returned shape %s' % (out.shape,))
    require(np.array_equal(params, np.array(case['params'], float)), 'perturb_params modified the input parameters')
    for i, v in enumerate(out):
        if lo0 is not None and lo0[i] is not None:
            require(v >= lo0[i] - 1e-12 * abs(lo0[i]), 'perturbed parameter %d = %r is below its lower bound %r' % (i, v, lo0[i]), finding='perturb-negative-bounds' if lo0[i] < 0 else None)
        if hi0 is not None and hi0[i] is not None:
            require(v <= hi0[i] + 1e-12 * abs(hi0[i]), 'perturbed parameter %d = %r is above its upper bound %r' % (i, v, hi0[i]), finding='perturb-negative-bounds' if hi0[i] < 0 else None)
        # within the advertised fold range unless clipped by a bound
        r = v / params[i]
        clipped = (lo0 is not None and lo0[i] is not None) or (hi0 is not None and hi0[i] is not None)
        if not clipped:
            require(2.0 ** (-case['fold']) * (1 - 1e-12) <= r <= 2.0 ** case['fold'] * (1 + 1e-12), 'perturbation factor %r outside 2^+-%d' % (r, case['fold']))
    require(lo == lo0 and hi == hi0, 'perturb_params modified the caller\'s bound lists: %r -> %r / %r -> %r' % (lo0, lo, hi0, hi),
            finding='perturb-mutates-bounds')
