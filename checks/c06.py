"""C06 - splits, admixture, pulses, removal and reordering conserve marginal densities."""
import math
from fractions import Fraction

import numpy as np
from hypothesis import strategies as st

import dadi
from dadi import PhiManip
from harness import grids as G
from harness.core import Registry, Violation, Reject, dadi_call, require, require_close
from harness.refs import admix as A

REG = Registry(
    'C06',
    rule=('cases = (function among 6 constructors and 14 in-place pulses, shared grid of 4-12 points (4-6 in 5-D) from {uniform, '
          'exponential, random}, density from {random, sparse, edges, smooth}, proportion vectors on the simplex incl. zeros, ones, '
          'faces, and rationals k/q that put mixed frequencies exactly on grid points of a uniform grid). Non-trivial = proportions not '
          'all in {0,1}, and (non-uniform grid or exact grid hits). Distinct by (function, proportions, grid, density) hash.'),
    assumptions=['oracle: harness/refs/admix.py (explicit loops, bisect): density values at the two bracketing grid points in proportion '
                 'to proximity, scaled so the trapezoid integral over the new axis returns the source density',
                 'a proportion vector counts as inside the simplex when the exact rational sum of its float entries is <= 1'])

AXN = 'xyzab'

# pulse functions: name -> (P, dest index, source indices in argument order)
PULSES = {
    'phi_2D_admix_1_into_2': (2, 1, [0]), 'phi_2D_admix_2_into_1': (2, 0, [1]),
    'phi_3D_admix_1_and_2_into_3': (3, 2, [0, 1]), 'phi_3D_admix_1_and_3_into_2': (3, 1, [0, 2]), 'phi_3D_admix_2_and_3_into_1': (3, 0, [1, 2]),
    'phi_4D_admix_into_1': (4, 0, [1, 2, 3]), 'phi_4D_admix_into_2': (4, 1, [0, 2, 3]), 'phi_4D_admix_into_3': (4, 2, [0, 1, 3]),
    'phi_4D_admix_into_4': (4, 3, [0, 1, 2]),
    'phi_5D_admix_into_1': (5, 0, [1, 2, 3, 4]), 'phi_5D_admix_into_2': (5, 1, [0, 2, 3, 4]), 'phi_5D_admix_into_3': (5, 2, [0, 1, 3, 4]),
    'phi_5D_admix_into_4': (5, 3, [0, 1, 2, 4]), 'phi_5D_admix_into_5': (5, 4, [0, 1, 2, 3]),
}
CONSTRUCTORS = ['phi_1D_to_2D', 'phi_2D_to_3D_split_1', 'phi_2D_to_3D_split_2', 'phi_2D_to_3D_admix', 'phi_3D_to_4D', 'phi_4D_to_5D']


@st.composite
def simplex(draw, k, q=None):
    """k proportions with sum <= 1 (the remainder belongs to the implicit last/own population)."""
    mode = draw(st.sampled_from(['random', 'random', 'face', 'vertex', 'zero', 'rational', 'full']))
    if k == 0:
        return []
    if mode == 'zero':
        return [0.0] * k
    if mode == 'vertex':
        v = [0.0] * k
        v[draw(st.integers(0, k - 1))] = 1.0
        return v
    if mode == 'rational' and q:
        parts = [draw(st.integers(0, q)) for _ in range(k)]
        while sum(parts) > q:
            parts[int(np.argmax(parts))] -= 1
        return [p / q for p in parts]
    w = [draw(st.floats(0.0, 1.0)) for _ in range(k + 1)]
    if mode == 'face':
        w[draw(st.integers(0, k))] = 0.0
    if mode == 'full':
        w[k] = 0.0        # nothing left for the implicit population: proportions sum to one mathematically
    s = sum(w)
    if s == 0:
        return [0.0] * k
    v = [x / s for x in w[:k]]
    # make sure the exact sum of the floats is <= 1 (inside the simplex as numbers, not only as intentions)
    while sum(Fraction(x) for x in v) > 1:
        j = int(np.argmax(v))
        v[j] = float(np.nextafter(v[j], 0.0))
    return v


@st.composite
def base_case(draw, P):
    maxL = {1: 14, 2: 12, 3: 9, 4: 6, 5: 5}[P]
    L = draw(st.integers(4, maxL))
    spec = draw(G.grid_spec(min_pts=L, max_pts=L, kinds=('uniform', 'exponential', 'random')))
    return dict(P=P, L=L, grid=spec, phi_seed=draw(st.integers(0, 2 ** 31 - 1)), phi_kind=draw(st.sampled_from(G.PHI_KINDS)))


def tol_for(xx):
    """round-off of the mixture frequency (~1e-16) is amplified by 1/spacing in the interpolation fraction and by the ratio of
    neighbouring trapezoid weights in the normalisation"""
    w = A.trapz_weights(xx)
    return 1e-10 + 40 * np.finfo(float).eps * (w.max() / w.min()) / np.diff(xx).min()


def build(c):
    xx = G.make_grid(c['grid'])
    phi = G.make_phi((len(xx),) * c['P'], c['phi_seed'], c['phi_kind'])
    return xx, phi


@st.composite
def ctor_case(draw):
    name = draw(st.sampled_from(CONSTRUCTORS))
    P = {'phi_1D_to_2D': 1, 'phi_2D_to_3D_split_1': 2, 'phi_2D_to_3D_split_2': 2, 'phi_2D_to_3D_admix': 2, 'phi_3D_to_4D': 3,
         'phi_4D_to_5D': 4}[name]
    c = draw(base_case(P))
    k = {'phi_2D_to_3D_admix': 1, 'phi_3D_to_4D': 2, 'phi_4D_to_5D': 3}.get(name, 0)
    fs = draw(simplex(k, q=(c['L'] - 1) if c['grid']['kind'] == 'uniform' else None))
    axis_grids = None
    if name in ('phi_2D_to_3D_admix', 'phi_3D_to_4D', 'phi_4D_to_5D') and draw(st.integers(0, 3)) == 0:
        # one grid per population, the new one included (same length)
        axis_grids = [draw(G.grid_spec(min_pts=c['L'], max_pts=c['L'], kinds=('uniform', 'exponential', 'random'))) for _ in range(P + 1)]
    return dict(c, name=name, fs=fs, axis_grids=axis_grids)


def _nt(c, fs):
    return any(f not in (0.0, 1.0) for f in fs) and True


@REG.relation('R1-constructors', strategy=ctor_case, quick=(1500, 16), thorough=(30000, 16))
def r1(c, rec):
    """New population by split/admixture: equals the explicit deposition oracle; integrating the new population out returns the
    input; a pure split puts all mass on the diagonal (copy of the parent)."""
    xx, phi = build(c)
    name, P, fs = c['name'], c['P'], c['fs']
    rec.case(c, _nt(c, fs) or name.startswith('phi_2D_to_3D_split') or name == 'phi_1D_to_2D', [name, c['grid']['kind']])
    phi0 = phi.copy()
    f = getattr(PhiManip, name)
    with dadi_call(name, func=name):
        if name == 'phi_1D_to_2D':
            out = f(xx, phi)
        elif name.startswith('phi_2D_to_3D_split'):
            out = f(xx, phi)
        elif c.get('axis_grids'):
            grids_all = [G.make_grid(g) for g in c['axis_grids']]
            rec.label('one grid per population')
            out = f(*([phi] + list(fs) + grids_all))
        else:
            out = f(*([phi] + list(fs) + [xx] * (P + 1)))
    require(np.array_equal(phi, phi0), '%s modified its input density' % name, func=name)
    require(out.shape == (len(xx),) * (P + 1), '%s returned shape %s' % (name, out.shape), func=name)
    if name == 'phi_1D_to_2D':
        w = A.trapz_weights(xx)
        exp = np.zeros((len(xx), len(xx)))
        for i in range(1, len(xx) - 1):
            exp[i, i] = phi[i] / w[i]
        require_close(out, exp, 1e-12, 'phi_1D_to_2D vs diagonal copy', rec, key='1D_to_2D', atol=1e-300, func=name)
        back = PhiManip.remove_pop(out, xx, 2)
        require_close(back[1:-1], phi[1:-1], 1e-12, 'integrating the new population out of phi_1D_to_2D (interior)', rec, key='remove-new', atol=1e-300, func=name)
        back1 = PhiManip.remove_pop(out, xx, 1)
        require_close(back1[1:-1], phi[1:-1], 1e-12, 'integrating the parent out of phi_1D_to_2D (the child is a copy)', rec, key='copy', atol=1e-300, func=name)
        return
    if name == 'phi_2D_to_3D_split_1':
        full = [1.0, 0.0]
    elif name == 'phi_2D_to_3D_split_2':
        full = [0.0, 1.0]
    else:
        full = list(fs) + [1.0 - sum(fs)]
    if c.get('axis_grids'):
        exp = A.add_population(phi, grids_all[:P], full, grids_all[P])
        scale = np.abs(exp).max()
        require_close(out, exp, max(tol_for(g) for g in grids_all), '%s vs explicit deposition (a different grid for each population)' % name, rec,
                      key='constructor', atol=1e-12 * scale, func=name)
        require_close(A.marginal(out, grids_all[P], P), phi, 1e-11, 'integrating the new population out of %s' % name, rec, key='remove-new',
                      atol=1e-13 * np.abs(phi).max(), func=name)
        return
    exp = A.add_population(phi, [xx] * P, full, xx)
    scale = np.abs(exp).max()
    require_close(out, exp, tol_for(xx), '%s vs explicit deposition' % name, rec, key='constructor', atol=1e-12 * scale, func=name)
    with dadi_call('remove_pop'):
        back = PhiManip.remove_pop(out, xx, P + 1)
    require_close(back, phi, 1e-12, 'integrating the new population out of %s' % name, rec, key='remove-new', atol=1e-300, func=name)
    if name.startswith('phi_2D_to_3D_split'):
        parent = 0 if name.endswith('1') else 1
        # all mass where new frequency == parent frequency
        for idx in np.ndindex(out.shape):
            if idx[2] != idx[parent] and out[idx] != 0:
                raise Violation('%s: density %g off the diagonal (parent index %d, child index %d)' % (name, out[idx], idx[parent], idx[2]), func=name)


@st.composite
def pulse_case(draw):
    name = draw(st.sampled_from(sorted(PULSES)))
    P, dest, srcs = PULSES[name]
    c = draw(base_case(P))
    fs = draw(simplex(len(srcs), q=(c['L'] - 1) if c['grid']['kind'] == 'uniform' else None))
    # the pulse functions take one grid per population: in a quarter of the cases the grids differ (same length)
    axis_grids = None
    if draw(st.integers(0, 3)) == 0:
        axis_grids = [draw(G.grid_spec(min_pts=c['L'], max_pts=c['L'], kinds=('uniform', 'exponential', 'random'))) for _ in range(P)]
    return dict(c, name=name, fs=fs, axis_grids=axis_grids)


@REG.relation('R2-pulses', strategy=pulse_case, quick=(1500, 16), thorough=(30000, 16))
def r2(c, rec):
    """In-place pulses: joint density of all other populations unchanged; identity at proportion 0; equals 'split into a temporary
    population and integrate the old destination out'; returns the (modified) input array; every simplex vector accepted."""
    xx, phi = build(c)
    name, fs = c['name'], c['fs']
    P, dest, srcs = PULSES[name]
    full = [0.0] * P
    for s_, f_ in zip(srcs, fs):
        full[s_] = f_
    full[dest] = 1.0 - sum(fs)
    rec.case(c, _nt(c, fs), [name, c['grid']['kind'], 'on-face' if any(f == 0 for f in fs) else 'interior-of-simplex',
                            'sum=1' if abs(sum(fs) - 1) < 1e-12 else 'sum<1'])
    work = phi.copy()
    f = getattr(PhiManip, name)
    grids = [G.make_grid(g) for g in c['axis_grids']] if c.get('axis_grids') else [xx] * P
    if c.get('axis_grids'):
        rec.label('one grid per population')
    with dadi_call('%s with proportions %r' % (name, fs), func=name):
        out = f(*([work] + list(fs) + grids))
    require(out is work or np.shares_memory(out, work), '%s is documented to alter phi in place and return it, but returned a different array' % name, func=name)
    require(out.shape == phi.shape, 'shape changed', func=name)
    exp = A.pulse(phi, grids, dest, full)
    scale = np.abs(exp).max()
    # the interpolation fraction (z - z_lo)/(z_hi - z_lo) amplifies the round-off of the mixture frequency by 1/spacing
    tol = max(tol_for(g) for g in grids)
    require_close(out, exp, tol, '%s vs explicit pulse oracle%s' % (name, ' (a different grid for each population)' if c.get('axis_grids') else ''), rec,
                  key='pulse', atol=1e-12 * scale, func=name)
    # joint density of the other populations unchanged
    require_close(A.marginal(out, grids[dest], dest), A.marginal(phi, grids[dest], dest), 1e-11, 'joint density of the other populations after %s' % name,
                  rec, key='others-marginal', atol=1e-13 * np.abs(phi).max(), func=name)
    if all(v == 0 for v in fs):
        require_close(out, phi, 1e-12, '%s at proportion 0 is the identity' % name, rec, key='identity', atol=1e-300, func=name)


@st.composite
def reject_case(draw):
    kind = draw(st.sampled_from(['pulse', 'ctor']))
    if kind == 'pulse':
        name = draw(st.sampled_from(sorted(PULSES)))
        P, dest, srcs = PULSES[name]
        k = len(srcs)
    else:
        name = draw(st.sampled_from(['phi_3D_to_4D', 'phi_4D_to_5D']))
        P = {'phi_3D_to_4D': 3, 'phi_4D_to_5D': 4}[name]
        k = P - 1
    c = draw(base_case(P))
    w = [draw(st.floats(0.01, 1.0)) for _ in range(k)]
    total = draw(st.sampled_from([1.0 + 1e-6, 1.01, 1.5, 3.0]))
    fs = [x / sum(w) * total for x in w]
    return dict(c, name=name, fs=fs, kind=kind)


@REG.relation('R3-simplex-rejection', strategy=reject_case, quick=(400, 4), thorough=(4000, 8))
def r3(c, rec):
    """Proportion vectors summing above 1 are rejected with ValueError."""
    xx, phi = build(c)
    name, fs, P = c['name'], c['fs'], c['P']
    rec.case(c, True, [name])
    f = getattr(PhiManip, name)
    try:
        if c['kind'] == 'pulse':
            f(*([phi.copy()] + list(fs) + [xx] * P))
        else:
            f(*([phi.copy()] + list(fs) + [xx] * (P + 1)))
    except ValueError:
        return
    except Exception as e:
        raise Violation('%s with proportions summing to %g raised %s, not ValueError' % (name, sum(fs), type(e).__name__), func=name)
    raise Violation('%s accepted proportions %r summing to %g > 1' % (name, fs, sum(fs)), func=name)


@st.composite
def remove_case(draw):
    P = draw(st.integers(2, 5))
    c = draw(base_case(P))
    keep = sorted(draw(st.lists(st.integers(0, P - 1), min_size=1, max_size=P - 1, unique=True)))
    perm = list(draw(st.permutations(range(P))))
    return dict(c, keep=keep, perm=perm, bad=draw(st.sampled_from(['dup', 'short', 'zero'])))


@REG.relation('R4-remove-filter-reorder', strategy=remove_case, quick=(800, 8), thorough=(10000, 16))
def r4(c, rec):
    """remove_pop / filter_pops = trapezoid marginal by explicit weights; reorder_pops = axis permutation, non-permutations refused;
    inputs untouched."""
    xx, phi = build(c)
    P = c['P']
    rec.case(c, c['grid']['kind'] != 'uniform', ['dim=%d' % P])
    phi0 = phi.copy()
    w = A.trapz_weights(xx)
    for k in range(P):
        with dadi_call('remove_pop'):
            got = PhiManip.remove_pop(phi, xx, k + 1)
        exp = np.tensordot(phi, w, axes=([k], [0]))
        require_close(got, exp, 1e-12, 'remove_pop(%d) vs explicit trapezoid marginal' % (k + 1), rec, key='remove_pop', atol=1e-300)
    keep = c['keep']
    with dadi_call('filter_pops'):
        got = PhiManip.filter_pops(phi, xx, [k + 1 for k in keep])
    exp = phi
    for k in reversed([k for k in range(P) if k not in keep]):
        exp = np.tensordot(exp, w, axes=([k], [0]))
    require_close(got, exp, 1e-12, 'filter_pops(%s) vs explicit marginal' % [k + 1 for k in keep], rec, key='filter_pops', atol=1e-300)
    perm = c['perm']
    with dadi_call('reorder_pops'):
        got = PhiManip.reorder_pops(phi, [p + 1 for p in perm])
    exp = np.zeros([phi.shape[p] for p in perm])
    for idx in np.ndindex(phi.shape):
        exp[tuple(idx[p] for p in perm)] = phi[idx]
    require(np.array_equal(np.asarray(got), exp), 'reorder_pops(%s) is not the axis permutation' % [p + 1 for p in perm])
    require(np.array_equal(phi, phi0), 'remove/filter/reorder modified the input density')
    bad = {'dup': [1] * P, 'short': list(range(1, P)), 'zero': list(range(0, P))}[c['bad']]
    try:
        PhiManip.reorder_pops(phi, bad)
    except ValueError:
        pass
    except Exception as e:
        raise Violation('reorder_pops(%r) raised %s, not ValueError' % (bad, type(e).__name__))
    else:
        raise Violation('reorder_pops(%r) on %d populations was accepted' % (bad, P))
