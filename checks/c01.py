"""C01 - one-population SFS matches exact coalescent and selection-equilibrium theory."""
import logging
import math
import warnings

import numpy as np
from hypothesis import strategies as st

import dadi
from dadi import Integration, Numerics, PhiManip
from harness import drivers as D
from harness import grids as G
from harness.core import Registry, Violation, Reject, dadi_call, require, require_close
from harness.refs import coalescent as COAL

warnings.filterwarnings('ignore')
logging.getLogger('Numerics').setLevel(logging.ERROR)

REG = Registry(
    'C01',
    rule=('R1: neutral size histories of 1-4 epochs (nu log-uniform in [0.05,20], epoch lengths log-uniform in [0.005,3] capped so the '
          'integration stays within a step budget), ancestral size 1 or generated, sample sizes 2-30, grid lists [g,g+10,g+20] with g >= n, '
          'linear/log extrapolation, constant / function-valued nu / a geometric staircase of 6-40 steps handed over as one function of time in one call, library models where the shape matches; R2-R4: (gamma,h,nu,theta0,beta) '
          'with gamma over [-1e6,1e3] log-spaced in |gamma| plus the regime-switch points; R5/R6: equilibria integrated further, time-step '
          'halving. Non-trivial = >=2 epochs with a size ratio >2, or gamma != 0, or beta != 1. Distinct by rounded parameter tuple.'),
    assumptions=['R1 oracle: exact coalescent expectation (matrix exponential of the lineage-death process), harness/refs/coalescent.py',
                 'R2 oracle: closed-form drift-selection equilibrium evaluated with mpmath at 40 digits, harness/refs/seleq.py',
                 'the 1.5% clause is decided under an explicit refinement rule: time step = a tenth of the default, coarsest grid = '
                 'max(g, n+10, 60); histories with an epoch nu<=0.15 followed by a FINAL epoch nu>=8 at n>=27 are excluded (time-step '
                 'dominated, calibrated at 1.1-1.6% there) and counted',
                 'densities are compared pointwise where the true value exceeds 1e-12 of its maximum over the grid'])

TAU0 = 1e-3


# ------------------------------------------------------------------------------------------------- R1 coalescent
@st.composite
def history_case(draw, max_steps=40000):
    nep = draw(st.integers(1, 4))
    n = draw(st.integers(2, 30))
    nus, Ts = [], []
    tau = TAU0 / 10
    budget = max_steps
    for _ in range(nep):
        nu = math.exp(draw(st.floats(math.log(0.05), math.log(20.0))))
        T = math.exp(draw(st.floats(math.log(0.005), math.log(3.0))))
        cap = budget / nep * 4 * nu * tau
        T = min(T, cap)
        if T < 0.005:
            T = 0.005
        nus.append(nu)
        Ts.append(T)
    g = draw(st.integers(max(n, 5), n + 39))     # a grid needs at least a few points; otherwise 'at or above the sample size'
    as_func = draw(st.sampled_from([False, True, 'step']))
    if as_func == 'step':
        # a staircase (geometric, K small steps) between two sizes, handed over as ONE function of time in ONE call: the form in
        # which a user passes a finely stepped history. (An abrupt change passed this way is not held to the 1.5% clause: the one
        # step that straddles the change is sized for the old epoch, an O(dt) shift of the boundary that dadi cannot know about;
        # measured up to 2.7% for a 100-fold drop.)
        K = draw(st.integers(6, 40))
        a, b = nus[0], math.exp(draw(st.floats(math.log(0.05), math.log(20.0))))
        Ttot = min(math.exp(draw(st.floats(math.log(0.05), math.log(1.0)))), budget * 4 * min(a, b) * tau)
        nus = [a * (b / a) ** (k / (K - 1.0)) for k in range(K)]
        Ts = [Ttot / K] * K
    return dict(n=n, nus=nus, Ts=Ts, g=g, log=draw(st.booleans()), as_func=as_func, clock=draw(st.sampled_from(['restart', 'restart', 'running'])),
                theta0=draw(st.floats(0.1, 100.0)), beta=draw(st.sampled_from([1.0, 1.0, 0.5, 3.0])),
                nu_anc=draw(st.sampled_from([1.0, 1.0, 0.5, 2.0])), lib=draw(st.booleans()))


def excluded_shape(c):
    """a severe bottleneck followed by a large final expansion: the one region where dadi's accuracy at a tenth of the default step
    falls (slightly) short of the 1.5% the property states - listed in known_findings.json as C01-bottleneck-expansion-accuracy"""
    nus = c['nus']
    return len(nus) >= 2 and nus[-1] >= 8 and any(v <= 0.15 for v in nus[:-1])


def model_func(c):
    nus, Ts = c['nus'], c['Ts']
    if c['lib'] and c['beta'] == 1.0 and c['nu_anc'] == 1.0 and not c['as_func'] and c['theta0'] is not None:
        if len(nus) == 1:
            return (lambda params, ns, pts: c['theta0'] * dadi.Demographics1D.two_epoch((nus[0], Ts[0]), ns, pts)), 'two_epoch'
        if len(nus) == 2:
            return (lambda params, ns, pts: c['theta0'] * dadi.Demographics1D.three_epoch((nus[0], nus[1], Ts[0], Ts[1]), ns, pts)), 'three_epoch'

    if c['as_func'] == 'step' and len(nus) >= 2:
        # the whole history handed over as ONE function of time in ONE call: nu(t) is the step function itself
        ends = np.cumsum(Ts)

        def nu_of_t(t):
            return nus[min(int(np.searchsorted(ends, t, side='left')), len(nus) - 1)]

        def fstep(params, ns, pts):
            xx = Numerics.default_grid(pts)
            phi = PhiManip.phi_1D(xx, nu=c['nu_anc'], theta0=c['theta0'], beta=c['beta'])
            phi = Integration.one_pop(phi, xx, float(ends[-1]), nu=nu_of_t, theta0=c['theta0'], beta=c['beta'])
            return dadi.Spectrum.from_phi(phi, ns, (xx,))
        return fstep, 'one step function'

    def f(params, ns, pts):
        xx = Numerics.default_grid(pts)
        phi = PhiManip.phi_1D(xx, nu=c['nu_anc'], theta0=c['theta0'], beta=c['beta'])
        t0 = 0.0
        for nu, T in zip(nus, Ts):
            nuarg = (lambda t, v=nu: v) if c['as_func'] else nu
            if c.get('clock') == 'running':
                # one clock for the whole history: each epoch runs from initial_t = (end of the previous one) to t0 + T
                phi = Integration.one_pop(phi, xx, t0 + T, nu=nuarg, theta0=c['theta0'], beta=c['beta'], initial_t=t0)
                t0 += T
            else:
                phi = Integration.one_pop(phi, xx, T, nu=nuarg, theta0=c['theta0'], beta=c['beta'])
        return dadi.Spectrum.from_phi(phi, ns, (xx,))
    return f, 'composed' + (' (running clock)' if c.get('clock') == 'running' else '')


def run_model(c, pts_l, tau):
    f, kind = model_func(c)
    ex = Numerics.make_extrap_log_func(f) if c['log'] else Numerics.make_extrap_func(f)
    with D.timescale(factor=tau):
        with dadi_call('one-population model (%s)' % kind):
            fs = ex(None, (c['n'],), pts_l)
    return np.asarray(np.ma.getdata(fs), float), kind


@REG.relation('R1-coalescent', strategy=history_case, quick=(160, 16), thorough=(2400, 16))
def r1(c, rec):
    """Neutral piecewise-constant histories: every polymorphic entry within 1.5% of the exact coalescent expectation at a tenth of
    the default time step on refined grids, and refinement does not make things worse."""
    shape = excluded_shape(c)
    if shape and rec.known(finding='bottleneck-expansion-accuracy'):
        rec.label('known finding: bottleneck then large final expansion (excluded, counted)')
        raise Reject()
    n = c['n']
    bf = 4 * c['beta'] / (c['beta'] + 1) ** 2
    exact = COAL.expected_sfs(n, [(nu * bf, T) for nu, T in zip(c['nus'], c['Ts'])], theta=c['theta0'], nu_anc=c['nu_anc'] * bf)
    nt = (len(c['nus']) >= 2 and max(c['nus']) / min(c['nus']) > 2) or c['beta'] != 1
    g = c['g']
    gp = max(g, n + 10, 60)
    fine, kind = run_model(c, [gp, gp + 10, gp + 20], TAU0 / 10)
    rec.case(c, nt, ['epochs=%d' % len(c['nus']), kind, 'log' if c['log'] else 'linear', {False: 'const-nu', True: 'func-nu', 'step': 'step-func-nu'}[c['as_func']]])
    inner = slice(1, n)
    if n < 2 or inner.stop <= inner.start:
        return
    err_fine = np.abs(fine[inner] / exact[inner] - 1).max()
    rec.err('coalescent rel err (tau0/10, refined grids)', err_fine)
    require(np.isfinite(fine[inner]).all(), 'non-finite spectrum')
    require(err_fine <= 0.015, 'worst polymorphic entry is %.3f%% from the exact coalescent expectation at a tenth of the default time '
            'step (grids %s): nus=%r Ts=%r n=%d' % (100 * err_fine, [gp, gp + 10, gp + 20], c['nus'], c['Ts'], n),
            **(dict(finding='bottleneck-expansion-accuracy') if shape else {}))
    coarse, _ = run_model(c, [g, g + 10, g + 20], TAU0)
    err_coarse = np.abs(coarse[inner] / exact[inner] - 1).max()
    rec.err('coalescent rel err (default step, user grids)', err_coarse)
    require(err_fine <= max(err_coarse, 0.005) + 1e-4, 'refining grid and time step increased the error from %.3f%% to %.3f%%' % (100 * err_coarse, 100 * err_fine))


# ------------------------------------------------------------------------------------------------- R2-R4 equilibrium density
def gamma_points():
    pts = [0.0, 1e-12, -1e-12, 1e-6, -1e-6]
    for e in np.linspace(-3, 6, 28):
        pts.append(-10.0 ** e)
    for e in np.linspace(-3, 3, 16):
        pts.append(10.0 ** e)
    pts += [-300.0, -299.999, -300.001, 300.0, 299.999, 300.001, -354.0, -355.0, -354.89, -354.8, -354.9, -350.0, 354.0, 355.0, -400.0, -700.0, -1500.0, -2900.0, 400.0, 700.0]
    return pts


@st.composite
def eq_case(draw):
    gam = draw(st.one_of(st.sampled_from(gamma_points()), st.floats(-50, 50)))
    h = draw(st.one_of(st.just(0.5), st.sampled_from([0.5, 0.0, 1.0, 0.5 + 1e-9, 0.5 - 1e-9, 0.499, 0.501]), st.floats(0.0, 1.0)))
    beta = draw(st.sampled_from([1.0, 1.0, 0.3, 2.5]))
    nu = draw(st.sampled_from([1.0, 1.0, 0.1, 0.5, 3.0, 10.0]))
    if beta != 1 and h != 0.5:
        # Qadjust switch of the general-h branch sits at gamma_eff*2 = -709.78 (exp overflow): probe both sides
        if draw(st.booleans()):
            gam = -354.89 * (beta + 1) ** 2 / (4 * beta) * draw(st.sampled_from([0.999, 1.001]))
    # gamma and nu range over the property's stated domain independently (gamma in [-1e6, 1e3], nu in [0.1, 10]): the selection strength
    # the density works with internally, gamma*nu*4beta/(beta+1)^2, then reaches 1e4 and -1e7; a fifth of the cases sit in those corners
    if draw(st.integers(0, 4)) == 0:
        gam, nu = draw(st.sampled_from([(1e3, 10.0), (1e3, 3.0), (300.0, 10.0), (-1e6, 10.0), (-1e6, 3.0), (-1e5, 10.0), (999.0, 10.0), (-3e5, 10.0)]))
    spec = draw(G.grid_spec(min_pts=8, max_pts=40, kinds=('uniform', 'exponential', 'quadratic', 'random')))
    # the density functions also accept a grid of interior frequencies only (no 0 and 1)
    return dict(gamma=gam, h=h, beta=beta, nu=nu, theta0=draw(st.floats(0.1, 10.0)), grid=spec, interior=draw(st.sampled_from([False, False, False, True])))


@REG.relation('R2-equilibrium-density', strategy=eq_case, quick=(192, 16), thorough=(6000, 16))
def r2(c, rec):
    """phi_1D: finite, non-negative, and equal to the closed-form drift-selection equilibrium (for the given size, dominance and
    breeding ratio) wherever the density is not negligible - including both sides of every numerical regime switch."""
    from harness.refs import seleq as S
    xx = G.make_grid(c['grid'])
    # (only the genic and neutral forms provide for it - `if xx[0] == 0 and xx[-1] == 1 ... else ...`; the general-h form always
    # treats its first and last points as the boundaries, and nothing documents more)
    interior = bool(c.get('interior')) and c['h'] == 0.5
    with dadi_call('phi_1D'):
        if interior:
            phi = np.asarray(PhiManip.phi_1D(xx[1:-1], nu=c['nu'], theta0=c['theta0'], gamma=c['gamma'], h=c['h'], beta=c['beta']), float)
            require(phi.shape == xx[1:-1].shape, 'phi_1D on an interior grid returned shape %r' % (phi.shape,))
            phi = np.concatenate([[phi[0]], phi, [phi[-1]]])       # aligned with xx; the end values are not judged
        else:
            phi = np.asarray(PhiManip.phi_1D(xx, nu=c['nu'], theta0=c['theta0'], gamma=c['gamma'], h=c['h'], beta=c['beta']), float)
    lab = (['interior grid'] if interior else []) + ['h=0.5' if c['h'] == 0.5 else 'h!=0.5', 'beta=1' if c['beta'] == 1 else 'beta!=1', 'nu=1' if c['nu'] == 1 else 'nu!=1',
           'gamma=0' if c['gamma'] == 0 else ('gamma<-300' if c['gamma'] < -300 else ('gamma>300' if c['gamma'] > 300 else 'moderate gamma'))]
    rec.case(c, c['gamma'] != 0 or c['beta'] != 1, lab)
    require(np.isfinite(phi).all(), 'phi_1D returned non-finite values (gamma=%r h=%r nu=%r beta=%r)' % (c['gamma'], c['h'], c['nu'], c['beta']))
    require((phi >= 0).all(), 'phi_1D returned negative density %r' % phi.min())
    exact = np.array([float(S.phi(x, c['gamma'], c['h'], c['nu'], c['theta0'], c['beta'])) for x in xx[1:-1]])
    got = phi[1:-1]
    ok = (exact > 1e-12 * exact.max()) & (exact > 1e-290)      # not judged in the denormal range, where doubles lose precision
    if not ok.any():
        return
    rel = np.abs(got[ok] / exact[ok] - 1)
    rec.err('density rel err', rel.max())
    # boundary layers narrower than ~1e-5 (|gamma_eff| > 1e4) are integrated by adaptive quadrature to about 1e-4
    eff = abs(c['gamma']) * c['nu'] * 4 * c['beta'] / (c['beta'] + 1) ** 2
    # (measured on the unchanged tree: 1.8e-3 at gamma=-1e6, h=0, where the integrand exp(-2 gamma x^2) is narrower than 1e-3)
    if rel.max() > (1e-6 if eff <= 1e4 else (1e-3 if eff <= 1e5 else 1e-2)):
        i = int(np.argmax(rel))
        sig = dict(finding='phi_1D-nu-in-selection') if (c['nu'] != 1 and c['gamma'] != 0) else {}
        raise Violation('phi_1D(gamma=%r, h=%r, nu=%r, beta=%r) at x=%.6g is %r; the drift-selection equilibrium is %r (rel diff %.3e)'
                        % (c['gamma'], c['h'], c['nu'], c['beta'], xx[1:-1][ok][i], got[ok][i], exact[ok][i], rel.max()), **sig)


@st.composite
def eqfs_case(draw):
    gam = draw(st.one_of(st.floats(-50, 50), st.sampled_from([-50.0, -30.0, -1.0, 1.0, 30.0, 1e-9, -1e-13])))
    return dict(gamma=gam, n=draw(st.integers(3, 10)), g=draw(st.integers(40, 60)), which=draw(st.sampled_from(['equil', 'two_epoch_sel'])),
                T=draw(st.floats(0.05, 0.5)))


@REG.relation('R3-equilibrium-spectrum', strategy=eqfs_case, quick=(96, 16), thorough=(1500, 16))
def r3(c, rec):
    """DemogSelModels.equil (and two_epoch_sel with nu=1, which stays at equilibrium) under grid extrapolation converge to the exact
    spectrum of the closed-form equilibrium: within 1.5% on every non-negligible entry, or still shrinking when the grids are doubled."""
    from harness.refs import seleq as S
    from dadi.DFE import DemogSelModels
    from numpy.polynomial.legendre import leggauss
    n, g = c['n'], c['g']
    rec.case(c, True, [c['which']])
    ex = Numerics.make_extrap_func(getattr(DemogSelModels, c['which']))
    params = [c['gamma']] if c['which'] == 'equil' else [1.0, c['T'], c['gamma']]
    t, w = leggauss(24)
    edges = [0.0, 1e-4, 1e-3, 1e-2, 0.05, 0.15, 0.3, 0.5, 0.7, 0.85, 0.95, 0.99, 0.999, 1.0]
    xs, ws = [], []
    for a, b in zip(edges[:-1], edges[1:]):
        xs.append(a + (t + 1) * (b - a) / 2)
        ws.append(w * (b - a) / 2)
    xs, ws = np.concatenate(xs), np.concatenate(ws)
    dens = np.array([float(S.phi_genic(x, c['gamma'])) for x in xs])
    exact = np.array([math.comb(n, i) * np.sum(ws * xs ** i * (1 - xs) ** (n - i) * dens) for i in range(1, n)])
    big = exact > 1e-6 * exact.max()
    errs = []
    for gg in (g, 2 * g):
        with dadi_call(c['which']):
            fs = np.asarray(np.ma.getdata(ex(params, (n,), [gg, gg + 10, gg + 20])), float)
        require(np.isfinite(fs[1:n]).all(), '%s(gamma=%r) gives non-finite entries' % (c['which'], c['gamma']))
        errs.append(np.abs(fs[1:n][big] / exact[big] - 1).max())
    rec.err('equilibrium spectrum rel err (doubled grids)', errs[1])
    require(errs[1] <= 0.015 or errs[1] <= 0.7 * errs[0], '%s(gamma=%r): worst non-negligible entry is %.3f%% from the closed-form equilibrium spectrum at '
            'grids %d.. and %.3f%% at doubled grids (neither within 1.5%% nor converging)' % (c['which'], c['gamma'], 100 * errs[0], g, 100 * errs[1]))


@st.composite
def stat_case(draw):
    nu = draw(st.sampled_from([1.0, 0.3, 3.0, 10.0, 0.1]))
    beta = draw(st.sampled_from([1.0, 1.0, 0.4, 2.0]))
    geff = draw(st.floats(-20, 20))
    gam = geff / (nu * 4 * beta / (beta + 1) ** 2)
    return dict(nu=nu, beta=beta, gamma=gam, h=draw(st.sampled_from([0.5, 0.5, 0.1, 0.9, 0.3])), T=draw(st.floats(0.05, 1.0)), theta0=draw(st.floats(0.5, 5.0)),
                passing=draw(st.sampled_from(['const', 'nu-func', 'all-func', 'X'])), alpha=draw(st.sampled_from([1.0, 1.0, 0.5, 2.5])))


@REG.relation('R4-stationarity', strategy=stat_case, quick=(96, 16), thorough=(1500, 16))
def r4(c, rec):
    """The equilibrium density, integrated further under the same size and selection, is unchanged up to a grid error that
    vanishes under refinement (error(2 pts) <= 0.75 error(pts), or below 1e-5; a first-order grid error approaches the ratio 0.5 from
    above - 0.64 was measured between 40 and 80 points - while a density that is not stationary gives a ratio of 1)."""
    n = 12
    lab = ['nu=1' if c['nu'] == 1 else 'nu!=1', 'gamma~0' if abs(c['gamma']) < 1e-3 else 'gamma!=0', 'h=0.5' if c['h'] == 0.5 else 'h!=0.5',
           'passing=' + c.get('passing', 'const')]
    rec.case(c, abs(c['gamma']) > 1e-3, lab)
    # the same constant history handed over as numbers or as functions of time (the latter takes the general time-stepping path)
    mode = c.get('passing', 'const')
    fn = lambda v: (lambda t, v=v: v)
    nuarg = c['nu'] if mode == 'const' else fn(c['nu'])
    garg, harg = (fn(c['gamma']), fn(c['h'])) if mode == 'all-func' else (c['gamma'], c['h'])
    Ds = []
    for pts in (40, 80):
        xx = Numerics.default_grid(pts)
        if mode == 'X':
            # the X-chromosome pair: equilibrium density phi_1D_X under the X-chromosome integrator (constants only; alpha = male to
            # female mutation-rate ratio, beta = breeding ratio)
            xkw = dict(nu=c['nu'], theta0=c['theta0'], gamma=c['gamma'], h=c['h'], beta=c['beta'], alpha=c.get('alpha', 1.0))
            with dadi_call('phi_1D_X / one_pop_X'):
                phi = PhiManip.phi_1D_X(xx, **xkw)
                require(np.isfinite(phi).all() and (phi >= 0).all(), 'phi_1D_X%r is not finite and non-negative' % (xkw,))
                fs0 = np.asarray(np.ma.getdata(dadi.Spectrum.from_phi(phi, (n,), (xx,))), float)
                phi2 = Integration.one_pop_X(phi, xx, c['T'], **xkw)
                fs1 = np.asarray(np.ma.getdata(dadi.Spectrum.from_phi(phi2, (n,), (xx,))), float)
            Ds.append(np.abs(fs1[1:n] - fs0[1:n]).max() / np.abs(fs0[1:n]).max())
            continue
        with dadi_call('phi_1D / one_pop'):
            phi = PhiManip.phi_1D(xx, nu=c['nu'], theta0=c['theta0'], gamma=c['gamma'], h=c['h'], beta=c['beta'])
            fs0 = np.asarray(np.ma.getdata(dadi.Spectrum.from_phi(phi, (n,), (xx,))), float)
            phi2 = Integration.one_pop(phi, xx, c['T'], nu=nuarg, gamma=garg, h=harg, theta0=c['theta0'], beta=c['beta'])
            fs1 = np.asarray(np.ma.getdata(dadi.Spectrum.from_phi(phi2, (n,), (xx,))), float)
        Ds.append(np.abs(fs1[1:n] - fs0[1:n]).max() / np.abs(fs0[1:n]).max())
    rec.err('drift at pts=80', Ds[1])
    if not (Ds[1] <= 0.75 * Ds[0] or Ds[1] <= 1e-5):
        sig = dict(finding='phi_1D-nu-in-selection') if (c['nu'] != 1 and abs(c['gamma']) > 1e-3) else {}
        if mode == 'X':
            raise Violation('phi_1D_X(nu=%r, gamma=%r, h=%r, beta=%r, alpha=%r) is not stationary under one_pop_X with the same parameters: spectrum '
                            'drifts by %.3e at 40 grid points and %.3e at 80 (does not vanish under refinement)'
                            % (c['nu'], c['gamma'], c['h'], c['beta'], c.get('alpha', 1.0), Ds[0], Ds[1]), **(dict(finding='phi_1D_X-nu-in-selection') if sig else {}))
        raise Violation('phi_1D(nu=%r, gamma=%r, h=%r, beta=%r) is not stationary under one_pop with the same parameters (%s): spectrum drifts by '
                        '%.3e at 40 grid points and %.3e at 80 (does not vanish under refinement)' % (c['nu'], c['gamma'], c['h'], c['beta'], mode, Ds[0], Ds[1]), **sig)


@st.composite
def dt_case(draw):
    nu = math.exp(draw(st.floats(math.log(0.1), math.log(10.0))))
    if 0.6 < nu < 1.6:
        nu *= 3.0        # start away from the stationary state, otherwise there is no time-step error to measure
    return dict(nu=nu, T=draw(st.floats(0.2, 1.0)), gamma=draw(st.sampled_from([0.0, 0.0, -5.0, 3.0, -20.0])),
                h=draw(st.sampled_from([0.5, 0.2])), n=draw(st.integers(4, 20)), pts=draw(st.integers(30, 60)), as_func=draw(st.booleans()))


@REG.relation('R5-first-order-in-time-step', strategy=dt_case, quick=(96, 16), thorough=(1500, 16))
def r5(c, rec):
    """The error shrinks in proportion to the time step: successive halvings of the step change the spectrum by amounts in ratio ~2."""
    xx = Numerics.default_grid(c['pts'])
    if abs(c['gamma']) * c['nu'] > 50:
        # the equilibrium's boundary layer (width 1/(2 |gamma| nu)) is narrower than the first grid cells at 30-60 points; the
        # time-step error is then not the leading error term and does not show its asymptotic behaviour at affordable step counts
        raise Reject('boundary layer not resolved by the grid')
    rec.case(c, c['gamma'] != 0, ['gamma=0' if c['gamma'] == 0 else 'gamma!=0', 'func' if c['as_func'] else 'const'])
    # at least ~40 steps at the coarsest setting (the step is tau * 4 nu for neutral/weak selection, tau/(0.25|gamma|...) otherwise)
    rate = max(0.25 / c['nu'], 0.3 * abs(c['gamma']))
    # strong selection makes the problem stiff: the error becomes proportional to the step only at smaller steps
    tau = c['T'] * rate / (40.0 if abs(c['gamma']) < 10 else 160.0)
    out = []
    for k in range(3):
        with D.timescale(factor=tau / 2 ** k):
            phi = PhiManip.phi_1D(xx, gamma=c['gamma'], h=c['h'])
            nuarg = (lambda t, v=c['nu']: v) if c['as_func'] else c['nu']
            with dadi_call('one_pop'):
                phi = Integration.one_pop(phi, xx, c['T'], nu=nuarg, gamma=c['gamma'], h=c['h'])
            out.append(np.asarray(np.ma.getdata(dadi.Spectrum.from_phi(phi, (c['n'],), (xx,))), float)[1:c['n']])
    d1 = np.abs(out[0] - out[1]).max()
    d2 = np.abs(out[1] - out[2]).max()
    scale = np.abs(out[2]).max()
    if d1 <= 1e-3 * scale:
        return          # a time-step error below 0.1% of the largest entry cannot be told from the other error terms
    ratio = d1 / d2 if d2 > 0 else float('inf')
    rec.err('halving ratio - 2', abs(ratio - 2))
    require(1.5 <= ratio <= 2.7, 'halving the time step changes the spectrum by %.3e then %.3e: ratio %.2f, expected ~2 for an error proportional to the step'
            % (d1, d2, ratio))
