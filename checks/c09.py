"""C09 - folding and ancestral misidentification conserve counts; symmetric, idempotent; attributes survive arithmetic."""
import logging
import operator

import numpy as np
from hypothesis import strategies as st

import dadi
from dadi import Numerics, Inference
from harness import gens
from harness.core import Registry, Violation, dadi_call, require, require_close
from harness.refs import folding

logging.getLogger('Spectrum_mod').setLevel(logging.ERROR)
logging.getLogger('Inference').setLevel(logging.ERROR)

REG = Registry(
    'C09',
    rule=('random spectra of 1-5 dimensions (sample sizes 1-8 per axis, odd and even totals; in 2% of the fold / unfold / misidentification cases one axis of 255-70001 entries), random masks with and without '
          'masked corners, optional labels; p in [0,1]; all binary / reflected / in-place operators. Non-trivial = dimension>=2 '
          'or an interior masked entry or an even total (ambiguous entries exist). Distinct by hash of the case.'),
    assumptions=['oracle: explicit numpy.ndindex loops in harness/refs/folding.py',
                 "dadi's unfold() builds its result with the Spectrum constructor default mask_corners=True; corner mask bits are "
                 'therefore compared only where the property speaks about them (fold), and forced on in the unfold relations'])


def fs_case(**kw):
    kw.setdefault('max_dim', 5)
    kw.setdefault('max_n', 8)
    kw.setdefault('max_entries', 700)
    kw.setdefault('folded', False)
    kw.setdefault('long_axis', 2)      # 2% of the cases: one axis of 255-70001 entries
    return gens.spectrum_case(**kw)


def _nontrivial(c):
    ns = [s - 1 for s in c['shape']]
    return len(ns) >= 2 or any(c['mask'][1:-1]) or sum(ns) % 2 == 0


def _labels(c):
    ns = [s - 1 for s in c['shape']]
    return ['dim=%d' % len(ns), 'N even' if sum(ns) % 2 == 0 else 'N odd', 'masked' if any(c['mask'][1:-1]) else 'nomask'] + \
        (['axis > 255 entries'] if max(ns) >= 255 else [])


@REG.relation('R1-fold-oracle', strategy=fs_case, quick=(3000, 8), thorough=(40000, 16))
def r1(c, rec):
    """fold() = explicit loop: values, mask (union of entry and mirror, plus folded-out half), totals, labels; input untouched."""
    data, mask = gens.arrays(c)
    fs = gens.make_fs(c)
    fs.extrap_x = 0.125
    rec.case(c, _nontrivial(c), _labels(c))
    with dadi_call('fold'):
        f = fs.fold()
    require(np.array_equal(fs.data, data) and np.array_equal(fs.mask, mask) and not fs.folded, 'fold modified its input')
    edata, emask = folding.fold(data, mask)
    emask.flat[0] = True   # fold() builds its result with the constructor default mask_corners=True: the absent corner is masked
    gens.fs_equal(f, edata, emask, 1e-13, 'fold', rec)
    require(f.folded is True or f.folded == True, 'folded spectrum not flagged folded')
    require(f.pop_ids == c['pop_ids'], 'fold lost labels')
    require(f.extrap_x == 0.125, 'fold lost extrap_x')
    # total conserved over entries whose mirror pair is unmasked
    pair_ok = ~(mask | folding.mirror(mask))
    pair_ok.flat[0] = pair_ok.flat[-1] = False
    require_close(np.ma.getdata(f)[~emask].sum(), data[pair_ok].sum(), 1e-12, 'total count after folding', rec, atol=1e-300)
    # folding twice is refused
    try:
        f.fold()
    except ValueError:
        pass
    else:
        raise Violation('folding an already folded spectrum was accepted')


@REG.relation('R2-mirror-invariance', strategy=fs_case, quick=(2000, 8), thorough=(30000, 16))
def r2(c, rec):
    """fold(mirror(x)) == fold(x), for data and mask."""
    fs = gens.make_fs(c)
    rec.case(c, _nontrivial(c), _labels(c))
    with dadi_call('fold of mirrored spectrum'):
        a = fs.fold()
        b = Numerics.reverse_array(fs).fold()
    require(isinstance(b, dadi.Spectrum) and b.folded, 'fold of mirrored spectrum is not a folded Spectrum')
    gens.fs_equal(b, np.ma.getdata(a), np.ma.getmaskarray(a), 1e-13, 'fold(mirror(x)) vs fold(x)', rec)


@REG.relation('R3-fold-unfold-fold', strategy=fs_case, quick=(2000, 8), thorough=(30000, 16))
def r3(c, rec):
    """fold(unfold(fold(x))) == fold(x); unfold = each allele equally likely ancestral, masks follow the folded entry."""
    data, mask = gens.arrays(c)
    fs = gens.make_fs(c)
    rec.case(c, _nontrivial(c), _labels(c))
    with dadi_call('fold/unfold'):
        f = fs.fold()
        u = f.unfold()
        f2 = u.fold()
    fdata, fmask = folding.fold(data, mask)
    udata, umask = folding.unfold(fdata, fmask)
    umask.flat[0] = umask.flat[-1] = True
    gens.fs_equal(u, udata, umask, 1e-13, 'unfold(fold(x))', rec)
    require(not u.folded, 'unfolded spectrum flagged folded')
    require(u.pop_ids == c['pop_ids'], 'unfold lost labels')
    em = fmask.copy()
    em.flat[0] = True
    gens.fs_equal(f2, fdata, em, 1e-13, 'fold(unfold(fold(x))) vs fold(x)', rec)
    # total of unfold equals total of folded over unmasked entries (corner aside)
    try:
        fs.unfold()
    except ValueError:
        pass
    else:
        raise Violation('unfolding an unfolded spectrum was accepted')


@st.composite
def misid_case(draw):
    c = draw(fs_case(max_dim=4))
    p = draw(st.one_of(st.floats(0, 1), st.sampled_from([0.0, 1.0, 0.5])))
    return dict(fs=c, p=p, nparams=draw(st.integers(0, 3)))


@REG.relation('R4-misid', strategy=misid_case, quick=(2000, 8), thorough=(30000, 16))
def r4(case, rec):
    """apply_anc_state_misid = (1-p) x + p mirror(x); wrapper takes p as the LAST parameter and forwards the others."""
    c, p = case['fs'], case['p']
    data, mask = gens.arrays(c)
    fs = gens.make_fs(c)
    rec.case(case, _nontrivial(c) and 0 < p < 1, _labels(c))
    with dadi_call('apply_anc_state_misid'):
        out = Numerics.apply_anc_state_misid(fs, p)
    exp = (1 - p) * data + p * folding.mirror(data)
    emask = mask | folding.mirror(mask)
    gens.fs_equal(out, exp, emask, 1e-13, 'misidentified spectrum', rec)
    require(np.array_equal(fs.data, data) and np.array_equal(fs.mask, mask), 'apply_anc_state_misid modified its input')
    require(out.pop_ids == c['pop_ids'], 'misid lost labels')
    pair_ok = ~emask
    require_close(np.ma.getdata(out)[pair_ok].sum(), data[pair_ok].sum(), 1e-12, 'total after misid', rec, atol=1e-300)
    # wrappers
    seen = []
    base = [0.3 + i for i in range(case['nparams'])]

    def model(params, ns, pts, flag=None):
        seen.append((list(params), tuple(ns), pts, flag))
        return gens.make_fs(c)
    for maker in (Numerics.make_anc_state_misid_func, Inference.add_misid_param):
        del seen[:]
        with dadi_call(maker.__name__):
            w = maker(model)
            out2 = w(base + [p], tuple(s - 1 for s in c['shape']), 17, flag='k')
        require(seen == [(base, tuple(s - 1 for s in c['shape']), 17, 'k')],
                '%s forwarded %r, expected params %r' % (maker.__name__, seen, base))
        gens.fs_equal(out2, exp, emask, 1e-13, '%s result' % maker.__name__, rec)


BINOPS = [('add', operator.add), ('sub', operator.sub), ('mul', operator.mul), ('truediv', operator.truediv),
          ('floordiv', operator.floordiv), ('pow', operator.pow)]
IOPS = [('iadd', operator.iadd), ('isub', operator.isub), ('imul', operator.imul), ('itruediv', operator.itruediv),
        ('ifloordiv', operator.ifloordiv), ('ipow', operator.ipow)]


@st.composite
def arith_case(draw):
    a = draw(fs_case(max_dim=3, folded=None, values='positive', long_axis=0))
    n = len(a['data'])
    b_data = draw(st.lists(st.floats(0.5, 4.0), min_size=n, max_size=n))
    b_mask = [1 if v < 20 else 0 for v in draw(st.lists(st.integers(0, 99), min_size=n, max_size=n))]
    other = draw(st.sampled_from(['scalar', 'array', 'spectrum', 'spectrum-labelled']))
    return dict(a=a, b_data=b_data, b_mask=b_mask, other=other, scalar=draw(st.floats(0.5, 3.0)),
                op=draw(st.integers(0, len(BINOPS) - 1)), form=draw(st.sampled_from(['binary', 'reflected', 'inplace'])))


def _ref_pair(case):
    a = case['a']
    data, mask = gens.arrays(a)
    if a['folded']:
        data, mask = folding.fold(data, mask)
    return data, mask


@REG.relation('R5-arithmetic-attrs', strategy=arith_case, quick=(4000, 8), thorough=(50000, 16))
def r5(case, rec):
    """folded flag, mask (OR of operand masks) and labels survive + - * / // ** in binary, reflected and in-place forms."""
    a = case['a']
    fs = gens.make_fs(a)
    adata, amask = _ref_pair(case)
    shape = tuple(a['shape'])
    bdata = np.array(case['b_data']).reshape(shape)
    bmask = np.array(case['b_mask'], bool).reshape(shape)
    kind = case['other']
    if kind == 'scalar':
        other, odata, omask = case['scalar'], case['scalar'], np.zeros(shape, bool)
    elif kind == 'array':
        other, odata, omask = bdata.copy(), bdata, np.zeros(shape, bool)
    else:
        if a['folded']:
            bdata, bmask = folding.fold(bdata, bmask)
        other = dadi.Spectrum(bdata, mask=bmask, mask_corners=False, data_folded=bool(a['folded']),
                              pop_ids=a['pop_ids'] if kind == 'spectrum-labelled' else None)
        odata, omask = bdata, bmask
    name, op = BINOPS[case['op']]
    form = case['form']
    rec.case(case, True, ['%s/%s/%s' % (form, name, kind), 'folded' if a['folded'] else 'unfolded'])
    emask = amask | omask
    with np.errstate(all='ignore'):
        if form == 'binary':
            with dadi_call('Spectrum %s %s' % (name, kind)):
                out = op(fs, other)
            edata = op(adata, odata)
        elif form == 'reflected':
            if kind in ('spectrum', 'spectrum-labelled'):
                with dadi_call('Spectrum r%s' % name):
                    out = getattr(fs, '__r%s__' % name)(other)
            else:
                with dadi_call('reflected %s' % name):
                    out = op(other, fs)
            edata = op(odata, adata)
        else:
            iname, iop = IOPS[case['op']]
            with dadi_call('in-place %s' % iname):
                out = iop(fs, other)
            require(out is fs, 'in-place operator returned a new object')
            edata = op(adata, odata)
    require(isinstance(out, dadi.Spectrum), '%s %s gave %s, not a Spectrum' % (form, name, type(out).__name__))
    require(bool(out.folded) == bool(a['folded']), 'folding status changed by %s %s with %s: %r' % (form, name, kind, out.folded))
    require(out.pop_ids == a['pop_ids'] or (a['pop_ids'] is None and kind == 'spectrum-labelled'),
            'labels changed by %s %s with %s: %r' % (form, name, kind, out.pop_ids))
    gens.fs_equal(out, edata, emask, 1e-13, '%s %s with %s' % (form, name, kind), rec, key='arith')


@st.composite
def mixfold_case(draw):
    a = draw(fs_case(max_dim=3, folded=False, values='positive', long_axis=0))
    return dict(a=a, op=draw(st.integers(0, len(BINOPS) - 1)), form=draw(st.sampled_from(['binary', 'reflected', 'inplace'])),
                folded_first=draw(st.booleans()))


@REG.relation('R6-mixed-folding-refused', strategy=mixfold_case, quick=(1500, 4), thorough=(15000, 8))
def r6(case, rec):
    """Arithmetic between a folded and an unfolded spectrum raises ValueError for every operator form."""
    a = case['a']
    u = gens.make_fs(a)
    f = gens.make_fs(dict(a, folded=True))
    x, y = (f, u) if case['folded_first'] else (u, f)
    name, op = BINOPS[case['op']]
    form = case['form']
    rec.case(case, True, ['%s/%s' % (form, name)])
    try:
        with np.errstate(all='ignore'):
            if form == 'binary':
                op(x, y)
            elif form == 'reflected':
                getattr(x, '__r%s__' % name)(y)
            else:
                IOPS[case['op']][1](x, y)
    except ValueError:
        return
    except Exception as e:
        raise Violation('%s %s between folded and unfolded raised %s instead of ValueError' % (form, name, type(e).__name__))
    raise Violation('%s %s between a folded and an unfolded spectrum was accepted' % (form, name))


@st.composite
def slice_case(draw):
    a = draw(fs_case(max_dim=3, folded=None, min_n=2, long_axis=0))
    sl = []
    for s in a['shape']:
        lo = draw(st.integers(0, s - 1))
        hi = draw(st.integers(lo + 1, s))
        sl.append([lo, hi, draw(st.sampled_from([1, 1, 2]))])
    b = draw(fs_case(min_dim=len(a['shape']), max_dim=len(a['shape']), values='positive', long_axis=0))
    return dict(a=a, sl=sl, seed=draw(st.integers(0, 2 ** 20)))


@REG.relation('R7-slicing-and-ll', strategy=slice_case, quick=(1500, 4), thorough=(15000, 8))
def r7(case, rec):
    """Slices keep folding status, labels and the sliced mask; likelihood evaluation folds the model against folded data
    and leaves both arguments' attributes untouched."""
    a = case['a']
    fs = gens.make_fs(a)
    adata, amask = _ref_pair(dict(a=a))
    sl = tuple(slice(lo, hi, st_) for lo, hi, st_ in case['sl'])
    rec.case(case, True, ['folded' if a['folded'] else 'unfolded', 'dim=%d' % len(a['shape'])])
    with dadi_call('slicing'):
        sub = fs[sl]
    require(isinstance(sub, dadi.Spectrum), 'slice is %s' % type(sub).__name__)
    require(bool(sub.folded) == bool(a['folded']), 'slice lost folding status')
    require(sub.pop_ids == a['pop_ids'], 'slice lost labels')
    gens.fs_equal(sub, adata[sl], amask[sl], 0.0, 'slice', rec)
    # likelihood evaluation
    rng = np.random.RandomState(case['seed'])
    model = dadi.Spectrum(rng.uniform(0.5, 3.0, size=tuple(a['shape'])), pop_ids=a['pop_ids'])
    data = fs
    snap = (data.data.copy(), data.mask.copy(), data.folded, data.pop_ids, model.data.copy(), model.mask.copy(), model.folded)
    mm_ = folding.fold(model.data, np.ma.getmaskarray(model))[1] if a['folded'] else np.ma.getmaskarray(model)
    if (np.ma.getmaskarray(data) | mm_).all():
        return   # no jointly unmasked entry: likelihood undefined
    with dadi_call('ll / ll_multinom'):
        l1 = Inference.ll(model, data)
        l2 = Inference.ll_multinom(model, data)
    require(np.array_equal(snap[0], data.data) and np.array_equal(snap[1], data.mask) and snap[2] == data.folded
            and snap[3] == data.pop_ids, 'likelihood evaluation changed the data spectrum')
    require(np.array_equal(snap[4], model.data) and np.array_equal(snap[5], model.mask) and snap[6] == model.folded,
            'likelihood evaluation changed the model spectrum')
    if a['folded']:
        md, mm = folding.fold(model.data, np.ma.getmaskarray(model))
        mf = dadi.Spectrum(md, mask=mm, mask_corners=False, data_folded=True)
        with dadi_call('ll with pre-folded model'):
            l1b = Inference.ll(mf, data)
            l2b = Inference.ll_multinom(mf, data)
        for x, y, nm in ((l1, l1b, 'll'), (l2, l2b, 'll_multinom')):
            if np.ma.is_masked(x) and np.ma.is_masked(y):
                continue
            require_close(float(x), float(y), 1e-11, '%s with unfolded model vs model folded by the oracle' % nm, rec, atol=1e-9)
