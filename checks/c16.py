"""C16 - demes graphs and native dadi models give the same spectrum in any units or order; export and re-import round-trips."""
import glob
import logging
import math
import os
import warnings

import numpy as np
from hypothesis import strategies as st

import dadi
import dadi.Demes
from dadi.Demes import DemesUtil
from harness import programs as P
from harness.core import Registry, Violation, Reject, dadi_call, require, require_close, REPO

warnings.filterwarnings('ignore')
logging.getLogger('Inference').setLevel(logging.ERROR)

REG = Registry(
    'C16',
    rule=('a case is a random neutral "program" over 1-5 populations (harness/programs.py): 1-5 steps, each = at most one event '
          '(branch, true split, admixture into a new population with or without merging the parents, pulse or a back-to-back sequence of up to three pulses, removal, ancient-sample '
          'branch) followed by an integration with constant / exponential / linear sizes and a random sparse asymmetric migration '
          'matrix. The program is executed natively with PhiManip/Integration and, independently, translated to a demes graph with '
          'demes.Builder. Non-trivial = at least 2 populations and at least one of migration, size change, pulse, admixture, true '
          'split or ancient sample. Distinct by hash of the program.'),
    assumptions=['native programs keep their axes in order of creation (a true split is followed by reorder_pops), which is the order '
                 'the demes front end uses, so the two computations make the same primitive calls and agree to round-off (measured '
                 '<= 2e-14; tolerance 1e-9)',
                 'a frozen (ancient) population is integrated natively with the size its parent had when sampled, which is what the '
                 'front end passes; that number only enters the time-step rule',
                 'export is compared at 1e-6: the exporter classifies a size change as linear with numpy.allclose, so a nearly '
                 'constant exponential change may be exported as linear (cases with |log(nu1/nu0)| < 0.05 are rejected)',
                 'Demes.output(Nref=None) rescales migration rates by design (documented), so only Nref-given exports are compared'])

TOL = 1e-9


def feats(prog):
    f = P.features(prog)
    lab = ['pops=%d' % f['max_pops']]
    for k in ('true_split', 'mig', 'symmig', 'long_epoch', 'pulse', 'pulse_seq', 'growth', 'admix', 'merge', 'remove'):
        if f[k]:
            lab.append(k)
    if f['ancient']:
        lab.append('ancient')
    nt = f['max_pops'] >= 2 and (f['mig'] or f['growth'] or f['pulse'] or f['admix'] or f['true_split'] or f['ancient'] > 0)
    return f, lab, nt


def data(fs):
    return np.asarray(np.ma.getdata(fs), float)


def sfs(g, sampled, times, prog, via='Demes.SFS', **kw):
    ns = [prog['ns']] * len(sampled)
    if any(t != 0 for t in times):
        kw['sample_times'] = list(times)
    with dadi_call(via, via=via):
        if via == 'Demes.SFS':
            return dadi.Demes.SFS(g, list(sampled), ns, prog['pts'], theta=prog['theta'], **kw)
        # Spectrum.from_demes has no theta argument: the spectrum is linear in theta
        return prog['theta'] * dadi.Spectrum.from_demes(g, list(sampled), ns, prog['pts'], **kw)


@st.composite
def native_case(draw):
    big = draw(st.integers(0, 4)) == 0
    # one case in eight grows straight to five populations (ancient samples among them)
    prog = draw(P.program(max_pops=5, eager=True)) if draw(st.integers(0, 7)) == 0 else draw(P.program(max_pops=5 if big else 4))
    units = draw(st.sampled_from(['generations', 'generations', 'years']))
    # Demes.SFS also takes one selection coefficient and dominance for all demes (relative to the reference size)
    sel = draw(st.sampled_from([None, None, None, [-2.0, 0.5], [1.5, 0.2], [-0.7, 0.8], [-2.0, None]]))
    return dict(prog=prog, units=units, gt=draw(st.sampled_from([25.0, 0.37, 1.0])), sel=sel, listing=draw(st.one_of(st.none(), st.integers(0, 1000))),
                via='Demes.SFS' if sel else draw(st.sampled_from(['Demes.SFS', 'Demes.SFS', 'from_demes'])))


@REG.relation('R1-graph-equals-native', strategy=native_case, quick=(400, 16), thorough=(6000, 16))
def r1(case, rec):
    """The spectrum computed from the graph equals the spectrum of the hand-written dadi program (ancient samples = frozen
    populations), whether the graph is in generations or years."""
    prog = case['prog']
    f, lab, nt = feats(prog)
    sel = case.get('sel')
    rec.case(case, nt, lab + [case['units'], case['via']] + (['shuffled listing'] if case.get('listing') is not None else []) + (['selection' + (' h!=0.5' if sel[1] not in (None, 0.5) else '')] if sel else []))
    with dadi_call('native program'):
        fs_n, names, frozen = P.run_native(prog, True, **(dict(gamma=sel[0], h=0.5 if sel[1] is None else sel[1]) if sel else {}))
    g, sampled, times = P.to_demes(prog, time_units=case['units'], generation_time=case['gt'] if case['units'] != 'generations' else None,
                                   listing=case.get('listing'))
    skw = {}
    if sel:
        skw['gamma'] = sel[0]
        if sel[1] is not None:
            skw['h'] = sel[1]
    fs_d = sfs(g, sampled, times, prog, via='Demes.SFS' if case['via'] == 'Demes.SFS' else 'Spectrum.from_demes', **skw)
    require(fs_d.shape == fs_n.shape, 'graph spectrum has shape %s, native %s' % (fs_d.shape, fs_n.shape))
    m = ~np.ma.getmaskarray(fs_n)
    require_close(data(fs_d)[m], data(fs_n)[m], TOL, 'spectrum from the demes graph (%s, %s) vs the native dadi program [%s]' % (
        case['units'], case['via'], ' '.join(lab)), rec, key='graph vs native', pops=f['max_pops'])


@st.composite
def meta_case(draw):
    big = draw(st.integers(0, 5)) == 0
    prog = draw(P.program(max_pops=5 if big else 4))
    return dict(prog=prog, c=math.exp(draw(st.floats(math.log(0.05), math.log(20.0)))), gt=draw(st.sampled_from([25.0, 0.37, 29.0])),
                perm_seed=draw(st.integers(0, 10 ** 6)), give_Ne=draw(st.booleans()))


@REG.relation('R2-units-scale-order', strategy=meta_case, quick=(240, 16), thorough=(4000, 16))
def r2(case, rec):
    """The graph's spectrum is unchanged in other time units, relative to another reference size (sizes and times x c, rates / c),
    the order in which ancestors, pulse sources and migrations are written down does not matter, and sampled demes listed in another
    order only permute the axes."""
    prog = case['prog']
    f, lab, nt = feats(prog)
    rec.case(case, nt and (case['c'] < 0.8 or case['c'] > 1.25), lab)
    g, sampled, times = P.to_demes(prog)
    base = data(sfs(g, sampled, times, prog))
    scale = np.abs(base).max()
    # other units
    g2, s2, t2 = P.to_demes(prog, time_units='years', generation_time=case['gt'])
    require_close(data(sfs(g2, s2, t2, prog)), base, TOL, 'graph in years (generation_time=%g) vs generations' % case['gt'], rec, key='units')
    # another reference size
    g3, s3, t3 = P.to_demes(prog, scale=case['c'])
    require_close(data(sfs(g3, s3, t3, prog)), base, TOL, 'graph with sizes and times x %.4g and rates / %.4g' % (case['c'], case['c']), rec, key='rescaled')
    # both, with the reference size named explicitly
    g4, s4, t4 = P.to_demes(prog, time_units='years', generation_time=case['gt'], scale=case['c'])
    kw = dict(Ne=prog['N0'] * case['c']) if case['give_Ne'] else {}
    require_close(data(sfs(g4, s4, t4, prog, **kw)), base, TOL, 'graph rescaled by %.4g in years%s' % (case['c'], ' with Ne given' if kw else ''), rec, key='rescaled+units')
    # the same graph written down differently: ancestors / pulse sources (with their proportions) and migrations in another order
    for ls in (case['perm_seed'], case['perm_seed'] + 1):
        g5, s5, t5 = P.to_demes(prog, listing=ls)
        require_close(data(sfs(g5, s5, t5, prog)), base, TOL, 'the same graph with ancestors, pulse sources and migrations listed in another order',
                      rec, key='listing order')
    # sampled demes in another order
    k = len(sampled)
    if k >= 2:
        perm = list(np.random.RandomState(case['perm_seed']).permutation(k))
        if perm == list(range(k)):
            perm = perm[::-1]
        fs_p = sfs(g, [sampled[i] for i in perm], [times[i] for i in perm], prog)
        require_close(data(fs_p), np.transpose(base, perm), TOL, 'sampled demes listed in order %s: axes must permute accordingly' % perm, rec, key='order')


@st.composite
def export_case(draw):
    big = draw(st.integers(0, 5)) == 0
    # true splits of a population that is not the last axis make the program reorder its axes (often by a 3-cycle or longer)
    prog = draw(P.program(max_pops=5 if big else 4, allow_ancient=False, favor_split=draw(st.booleans())))
    return dict(prog=prog, gt=draw(st.sampled_from([None, None, 25.0, 0.5])), named=draw(st.booleans()))


def _export_roundtrip(prog, gt, named):
    """(spectrum of the exported graph, native spectrum computed with the axis order the import uses in every epoch, reordered?)"""
    from dadi.Demes import Demes as DD
    with dadi_call('native program'):
        fs_n, names, frozen = P.run_native(prog, True, named=named)
    reordered = any(isinstance(e, dadi.Demes.Reorder) for e in dadi.Demes.cache)
    with dadi_call('Demes.output', stage='output'):
        g = dadi.Demes.output(Nref=prog['N0'], generation_time=gt)
        events = list(dadi.Demes.cache)
        ids = list(events[-1].deme_ids)
    require(len(ids) == len(names), 'exported history ends with %d demes, the program with %d' % (len(ids), len(names)))
    if named:
        require(ids == list(names), 'exported history ends with demes %r, the program named them %r' % (ids, names))
    with dadi_call('spectrum of the exported graph', stage='reimport'):
        fs_d = dadi.Demes.SFS(g, ids, [prog['ns']] * len(ids), prog['pts'], theta=prog['theta'])
    if reordered:
        # The import integrates each epoch with its demes in the order of the exported graph, which for a program that reordered
        # its axes is not the program's own order. Recompute the native spectrum with that order in every epoch (the model is the
        # same; only the order of the directional sub-steps changes), so that both sides make the same primitive calls.
        integ = [list(e.deme_ids) for e in events if isinstance(e, dadi.Demes.Integration)]
        present, _ = None, None
        gg = g.in_generations() if g.time_units != 'generations' else g
        _, demes_present = DD._get_demographic_events(gg, gg.discrete_demographic_events(), ids)
        present = [demes_present[iv] for iv in sorted(demes_present, reverse=True) if iv[0] != math.inf]
        require(len(present) == len(integ) == len(prog['steps']), 'the exported graph has %d epochs, the program %d integrations' % (len(present), len(integ)))
        orders = []
        for have, want in zip(integ, present):
            require(sorted(have) == sorted(want), 'epoch demes %r in the exported graph, %r recorded by the integration' % (want, have))
            orders.append([have.index(n) for n in want])
        with dadi_call('native program'):
            fs_n, names2, _ = P.run_native(prog, True, named=named, orders=orders)
    m = ~np.ma.getmaskarray(fs_n)
    return data(fs_d)[m], data(fs_n)[m], reordered


@REG.relation('R3-export-reimport', strategy=export_case, quick=(640, 16), thorough=(8000, 16))
def r3(case, rec):
    """Running a native program, exporting the recorded history with Demes.output(Nref[, generation_time]) and computing the
    spectrum of the exported graph reproduces the program's spectrum (default deme names, or names passed as deme_ids)."""
    prog = case['prog']
    f, lab, nt = feats(prog)
    for s in prog['steps']:
        for a, b, kind in s['integrate']['sizes']:
            if kind == 'exponential' and abs(math.log(b / a)) < 0.05:
                raise Reject('nearly constant exponential change')
    a, b, reordered = _export_roundtrip(prog, case['gt'], case['named'])
    rec.case(case, nt, lab + ['gt' if case['gt'] else 'generations', 'named' if case['named'] else 'default-names', 'reordered' if reordered else 'aligned'])
    what = 'spectrum of the exported graph vs the program that was exported [%s%s]' % (' '.join(lab), ' named' if case['named'] else '')
    require_close(a, b, 1e-6, what, rec, key='export (program reorders its axes)' if reordered else 'export', pops=f['max_pops'])


@st.composite
def slice_case(draw):
    prog = draw(P.program(max_pops=4, max_steps=4))
    Ts = [s['integrate']['T'] for s in prog['steps']]
    tot = sum(Ts)
    if draw(st.booleans()) and len(Ts) >= 2:
        k = draw(st.integers(1, len(Ts) - 1))
        t = sum(Ts[k:])                               # at an epoch boundary
        where = 'boundary'
    else:
        t = draw(st.floats(0.05, 0.95)) * tot
        where = 'inside'
    return dict(prog=prog, t=t, where=where, units=draw(st.sampled_from(['generations', 'years'])))


@REG.relation('R4-slice-and-ancient', strategy=slice_case, quick=(400, 16), thorough=(6000, 16))
def r4(case, rec):
    """Sampling every deme t ago (all samples ancient), and the graph sliced at t, both equal the native program stopped t before
    its end - including cuts inside exponential and linear epochs and older ancient samples."""
    prog, t = case['prog'], case['t']
    Ts = [s['integrate']['T'] for s in prog['steps']]
    for b in [sum(Ts[i:]) for i in range(len(Ts) + 1)]:
        if t != b and abs(t - b) < 1e-7:
            raise Reject('cut within round-off of an epoch boundary but not on it')
    f, lab, nt = feats(prog)
    # is the cut inside an epoch with a size change?
    togo = sum(s['integrate']['T'] for s in prog['steps'])
    cutkind = set()
    for s in prog['steps']:
        T = s['integrate']['T']
        if togo - T < t - 1e-12 < togo - 1e-12:
            cutkind = set(z[2] for z in s['integrate']['sizes'])
        togo -= T
    lab2 = lab + [case['where'], case['units']] + ['cut-%s' % k for k in sorted(cutkind - {'constant'})]
    rec.case(case, nt, lab2)
    with dadi_call('native program'):
        fs_n, names, frozen = P.run_native(prog, True, upto=t)
    gt = 25.0 if case['units'] == 'years' else None
    g, sampled, times = P.to_demes(prog, time_units=case['units'], generation_time=gt, upto=t)
    tcut = min(times)
    # (a) all samples ancient
    fs_a = sfs(g, sampled, times, prog)
    m = ~np.ma.getmaskarray(fs_n)
    require_close(data(fs_a)[m], data(fs_n)[m], TOL, 'all demes sampled %.6g %s ago (older ancient samples kept) vs the native program stopped there [%s]'
                  % (tcut, case['units'], ' '.join(lab2)), rec, key='all-ancient', finding='all-ancient')
    # (b) the sliced graph, sampled at its present
    with dadi_call('DemesUtil.slice'):
        gs = DemesUtil.slice(g, tcut)
    fs_s = sfs(gs, sampled, [x - tcut for x in times], prog, Ne=prog['N0'])
    require_close(data(fs_s)[m], data(fs_n)[m], TOL, 'graph sliced %.6g %s ago vs the native program stopped there [%s]' % (tcut, case['units'], ' '.join(lab2)),
                  rec, key='sliced', finding='slice')


@st.composite
def swipe_case(draw):
    prog = draw(P.program(max_pops=4, max_steps=5, allow_ancient=False))
    # the swipe time must fall while a single population exists: prefix of single-population steps
    pre = 0.0
    tot = sum(s['integrate']['T'] for s in prog['steps'])
    for s in prog['steps']:
        if len(s['integrate']['sizes']) == 1 and not s['event']:
            pre += s['integrate']['T']
        else:
            break
    return dict(prog=prog, frac=draw(st.floats(0.02, 0.98)), pre=pre, tot=tot, boundary=draw(st.integers(0, 3)) == 0)


@REG.relation('R5-swipe', strategy=swipe_case, quick=(400, 16), thorough=(6000, 16))
def r5(case, rec):
    """DemesUtil.swipe(g, t) leaves every deme's sizes, migrations and pulses more recent than t untouched and gives demes that
    span t their size at t for all earlier time; when one deme exists at t the swiped graph's spectrum equals the native program
    started from equilibrium at that size."""
    prog = case['prog']
    f, lab, nt = feats(prog)
    g, sampled, times = P.to_demes(prog)
    tot = case['tot']
    single = case['pre'] > 0
    if single:
        # inside the single-population prefix
        tt = tot - case['frac'] * case['pre']
        if case['boundary']:
            # at a boundary between two single-population steps, if there is one
            Ts = [s['integrate']['T'] for s in prog['steps']]
            nsingle = 0
            for s in prog['steps']:
                if len(s['integrate']['sizes']) == 1 and not s['event']:
                    nsingle += 1
                else:
                    break
            cands = [sum(Ts[i:]) for i in range(1, nsingle)]
            if cands:
                tt = cands[0]
    else:
        tt = case['frac'] * tot
    Tsx = [s['integrate']['T'] for s in prog['steps']]
    for b in [sum(Tsx[i:]) for i in range(len(Tsx) + 1)]:
        if tt != b and abs(tt - b) < 1e-7:
            tt = b                      # within round-off of an epoch boundary: take the boundary itself
    tg = 2.0 * prog['N0'] * tt
    rec.case(case, nt, lab + ['single-root' if single else 'structure-only'])
    with dadi_call('DemesUtil.swipe'):
        g2 = DemesUtil.swipe(g, tg)
    # structure: sizes at and after t
    for d in g2.demes:
        d0 = g[d.name]
        require(d.end_time == d0.end_time, 'swipe changed the end time of %s' % d.name)
        probe = [d0.end_time + x * (min(d0.start_time, tg) - d0.end_time) for x in (0.0, 0.3, 0.77, 0.999)]
        for tq in probe:
            if tq < min(d0.start_time, tg):
                a, b = d.size_at(tq), d0.size_at(tq)
                require(abs(a - b) <= 1e-9 * b, 'after swipe at %.6g, deme %s has size %.8g at time %.6g (was %.8g)' % (tg, d.name, a, tq, b))
        if d0.start_time > tg:
            want = d0.size_at(tg) if tg >= d0.end_time else None
            if want is not None:
                for tq in (tg * 1.0000001, tg * 2, tg * 50):
                    a = d.size_at(tq)
                    require(abs(a - want) <= 1e-9 * want, 'after swipe at %.6g, deme %s should have its size at that time (%.8g) for all '
                            'earlier times, but has %.8g at %.6g' % (tg, d.name, want, a, tq))
    for d0 in g.demes:
        if d0.end_time < tg:
            require(d0.name in g2, 'swipe at %.6g dropped deme %s, which lives until %.6g' % (tg, d0.name, d0.end_time))
    mig0 = sorted((m.source, m.dest, m.rate, min(m.start_time, tg), m.end_time) for m in g.migrations if m.end_time < tg)
    mig2 = sorted((m.source, m.dest, m.rate, m.start_time, m.end_time) for m in g2.migrations)
    require(len(mig0) == len(mig2) and all(a[:3] == b[:3] and abs(a[3] - b[3]) <= 1e-9 * tg and a[4] == b[4] for a, b in zip(mig0, mig2)),
            'swipe at %.6g: migrations %r, expected those more recent than the swipe time %r' % (tg, mig2, mig0))
    p0 = sorted((p.dest, p.time) for p in g.pulses if p.time < tg)
    p2 = sorted((p.dest, p.time) for p in g2.pulses)
    require(p0 == p2, 'swipe at %.6g: pulses %r, expected %r' % (tg, p2, p0))
    if single:
        with dadi_call('native program'):
            fs_n = P.run_native(prog, swipe_at=tt)
        fs_s = sfs(g2, sampled, times, prog, Ne=prog['N0'])
        m = ~np.ma.getmaskarray(fs_n)
        require_close(data(fs_s)[m], data(fs_n)[m], TOL, 'spectrum of the graph swiped at %.6g vs the native program started from equilibrium there [%s]'
                      % (tg, ' '.join(lab)), rec, key='swiped')


@st.composite
def multisplit_case(draw):
    k = draw(st.integers(3, 5))
    # parents[j] = index of the axis that the (j+2)-th population is split from, all at the same instant
    parents = [draw(st.integers(0, j)) for j in range(1, k - 1)]
    return dict(k=k, parents=parents, nus=[draw(st.sampled_from([0.4, 0.8, 1.5, 2.5, 3.5])) for _ in range(k)], T0=draw(st.sampled_from([0.0, 0.03])),
                T=draw(st.sampled_from([0.02, 0.05])), pts=draw(st.integers(8, 10)) if k == 5 else draw(st.integers(9, 12)),
                mapping=draw(st.booleans()), gt=draw(st.sampled_from([None, 25.0])))


@REG.relation('R7-export-simultaneous-splits', strategy=multisplit_case, quick=(96, 16), thorough=(1500, 16))
def r7(case, rec):
    """A model that splits several times at the same instant (no integration in between, so that intermediate populations never
    have an epoch of their own) exports to a graph whose spectrum is the model's; renaming demes through deme_mapping changes
    nothing but the names."""
    from dadi import Integration, PhiManip, Numerics
    k, pts = case['k'], case['pts']
    xx = Numerics.default_grid(pts)
    rec.case(case, True, ['k=%d' % k, 'mapping' if case['mapping'] else 'default-names', 'years' if case['gt'] else 'generations'])
    with dadi_call('native model with simultaneous splits'):
        phi = PhiManip.phi_1D(xx)
        if case['T0'] > 0:
            phi = Integration.one_pop(phi, xx, case['T0'], nu=1.7)
        phi = PhiManip.phi_1D_to_2D(xx, phi)
        for j, p in enumerate(case['parents']):
            nd = j + 2
            if nd == 2:
                phi = [PhiManip.phi_2D_to_3D_split_1, PhiManip.phi_2D_to_3D_split_2][p](xx, phi)
            elif nd == 3:
                pr = [1.0 if i == p else 0.0 for i in range(3)]
                phi = PhiManip.phi_3D_to_4D(phi, pr[0], pr[1], xx, xx, xx, xx)
            else:
                pr = [1.0 if i == p else 0.0 for i in range(4)]
                phi = PhiManip.phi_4D_to_5D(phi, pr[0], pr[1], pr[2], xx, xx, xx, xx, xx)
        kw = {'nu%d' % (i + 1): case['nus'][i] for i in range(k)}
        f = {3: Integration.three_pops, 4: Integration.four_pops, 5: Integration.five_pops}[k]
        phi = f(phi, xx, case['T'], **kw)
        fs_n = dadi.Spectrum.from_phi(phi, [2] * k, [xx] * k)
    with dadi_call('Demes.output', stage='output'):
        g = dadi.Demes.output(Nref=1000.0, generation_time=case['gt'])
        ids = list(dadi.Demes.cache[-1].deme_ids)
        if case['mapping']:
            mapping = {'final%d' % i: [ids[i]] for i in range(0, k, 2)}
            g2 = dadi.Demes.output(Nref=1000.0, generation_time=case['gt'], deme_mapping=mapping)
            ids = [('final%d' % i) if i % 2 == 0 else ids[i] for i in range(k)]
            g = g2
    with dadi_call('spectrum of the exported graph', stage='reimport'):
        fs_d = dadi.Demes.SFS(g, ids, [2] * k, pts)
    m = ~np.ma.getmaskarray(fs_n)
    require_close(data(fs_d)[m], data(fs_n)[m], 1e-6, 'exported graph of a model with %d simultaneous splits (parents %r) vs the model' % (k - 1, case['parents']),
                  rec, key='simultaneous splits')


YAMLS = sorted(glob.glob(os.path.join(REPO, 'tests', 'demes', '*.yaml')))


def enum_yaml(tier, shard, nshards, seed):
    reps = 1 if tier == 'quick' else 6
    k = 0
    for r in range(reps):
        for y in YAMLS:
            if k % nshards == shard:
                yield dict(yaml=os.path.basename(y), seed=(seed + 7919 * k) % (2 ** 31))
            k += 1


def _scaled_graph(g, c, units, gt):
    """the same model with sizes and times x c and rates / c, written in other time units - done on the resolved dictionary"""
    import demes
    g = g.in_generations()
    d = g.asdict()
    tf = c * (gt if units == 'years' else 1.0)
    d['time_units'] = units
    if units == 'years':
        d['generation_time'] = gt
    else:
        d['generation_time'] = 1
    for dm in d['demes']:
        if dm.get('start_time') not in (None, math.inf, 'Infinity'):
            dm['start_time'] = dm['start_time'] * tf
        for e in dm['epochs']:
            e['end_time'] *= tf
            e['start_size'] *= c
            e['end_size'] *= c
    for mg in d.get('migrations', []):
        mg['rate'] /= c
        mg['start_time'] = mg['start_time'] * tf if mg['start_time'] != math.inf else math.inf
        mg['end_time'] *= tf
    for p in d.get('pulses', []):
        p['time'] *= tf
    return demes.Builder.fromdict(d).resolve()


@REG.relation('R6-example-graphs', enum=enum_yaml, quick=(len(YAMLS), 16), thorough=(6 * len(YAMLS), 16))
def r6(case, rec):
    """The example graphs shipped with the test-suite, re-expressed in other units / relative to another reference size / sampled
    in another order, give the same spectrum."""
    import demes
    path = os.path.join(REPO, 'tests', 'demes', case['yaml'])
    try:
        g = demes.load(path)
    except Exception as e:
        raise Reject('demes cannot load %s: %s' % (case['yaml'], e))
    rs = np.random.RandomState(case['seed'])
    live = [d.name for d in g.demes if d.end_time == 0]
    if not live or len(live) > 5:
        raise Reject('no usable sample set')
    k = min(len(live), 3)
    sampled = list(rs.permutation(live)[:k])
    ns = [2] * k
    pts = 10
    try:
        base = dadi.Demes.SFS(g, list(sampled), ns, pts)
    except Exception as e:
        # graphs outside what dadi supports (more than five demes at once, selfing ...) are not in the property's domain
        raise Reject('unsupported example graph: %s' % str(e)[:80])
    rec.case(case, k >= 2, [case['yaml']])
    c = float(math.exp(rs.uniform(math.log(0.1), math.log(10))))
    units = 'years' if g.time_units == 'generations' else 'generations'
    g2 = _scaled_graph(g, c, units, 29.0)
    with dadi_call('Demes.SFS on the re-expressed example graph'):
        b = dadi.Demes.SFS(g2, list(sampled), ns, pts)
    require_close(data(b), data(base), TOL, '%s re-expressed in %s relative to a reference size x %.4g' % (case['yaml'], units, c), rec, key='example graphs')
    if k >= 2:
        perm = list(range(k))[::-1]
        with dadi_call('Demes.SFS with permuted samples'):
            bp = dadi.Demes.SFS(g, [sampled[i] for i in perm], ns, pts)
        require_close(data(bp), np.transpose(data(base), perm), TOL, '%s with sampled demes reversed' % case['yaml'], rec, key='example graphs order')
    # Spectrum.from_demes given the YAML file's name (a str) or the loaded graph, one grid size or three (extrapolated)
    with dadi_call('Spectrum.from_demes(path) / (graph)'):
        by_path = dadi.Spectrum.from_demes(path, list(sampled), ns, [pts, pts + 2, pts + 4])
        by_graph = dadi.Spectrum.from_demes(g, list(sampled), ns, [pts, pts + 2, pts + 4])
        one = dadi.Spectrum.from_demes(path, list(sampled), ns, pts)
    require_close(data(by_path), data(by_graph), 1e-12, 'from_demes(%s as a file name) vs from_demes(loaded graph)' % case['yaml'], rec, key='path vs graph')
    require_close(data(one), data(base), TOL, 'from_demes(%s, pts=%d) vs Demes.SFS' % (case['yaml'], pts), rec, key='from_demes vs Demes.SFS')
    require(list(by_path.pop_ids) == [str(x) for x in sampled], 'from_demes labels %r, sampled demes %r' % (by_path.pop_ids, sampled))
