"""C14 - spectra survive file and pickle round trips with data, mask, folding and labels."""
import logging
import math
import os
import pickle
import shutil
import tempfile

import numpy as np
from hypothesis import strategies as st

import dadi
from dadi import Numerics
from harness.core import Registry, Violation, dadi_call, require
from harness.refs import folding

logging.getLogger('Spectrum_mod').setLevel(logging.ERROR)

REG = Registry(
    'C14',
    rule=('spectra of 1-5 dimensions incl. singleton axes, values drawn over the whole double range (1e-300..1e300, both signs, '
          'zeros, subnormals) plus nan/+-inf, arbitrary masks, folded (valid folded masks) or not, labels with spaces, 0-5 comment '
          'lines, precision 16-20, plain and .gz; pickle protocols 2-5. Non-trivial = dimension>=2 or a non-finite value or an '
          'interior mask or labels. Distinct by hash of the case.'),
    assumptions=['oracle: the round trip itself; values must be bit-identical for precision>=17 and within 1e-15 relative for 16',
                 'labels do not contain double quotes or newlines (the file format quotes labels with ")'])

_TMP = None


def tmpdir():
    global _TMP
    if _TMP is None or not os.path.isdir(_TMP):
        _TMP = tempfile.mkdtemp(prefix='dadi-verif-c14-', dir=os.environ.get('DADI_VERIF_SCRATCH') or '/var/tmp')
        import atexit
        atexit.register(shutil.rmtree, _TMP, True)
    return _TMP


def _float():
    mag = st.builds(lambda m, e, s: s * m * 10.0 ** e, st.floats(1.0, 9.999999), st.integers(-300, 300), st.sampled_from([1.0, -1.0]))
    return st.one_of(mag, st.floats(-1e300, 1e300), st.integers(0, 1000).map(float),
                     st.sampled_from([0.0, float('nan'), float('inf'), float('-inf'), 5e-324, 1e300, -1e300, 0.1, 1 / 3.0]))


LABEL = st.text(alphabet='abcXYZ019_-+. ', min_size=1, max_size=8).filter(lambda s: s.strip() == s and s)
COMMENT = st.text(alphabet='abc XYZ 019_-+.,:=#', min_size=0, max_size=30)


@st.composite
def fs_case(draw, max_dim=5):
    nd = draw(st.integers(1, max_dim))
    shape = []
    entries = 1
    for _ in range(nd):
        s = draw(st.integers(1, max(1, min(7, 200 // entries))))
        shape.append(s)
        entries *= s
    if entries <= 40:
        data = draw(st.lists(_float(), min_size=entries, max_size=entries))
    else:
        rs = np.random.RandomState(draw(st.integers(0, 2 ** 31 - 1)))
        data = (rs.choice([1.0, -1.0], entries) * rs.uniform(1, 10, entries) * 10.0 ** rs.randint(-300, 300, entries))
        special = rs.rand(entries)
        data[special < 0.05] = np.nan
        data[(special > 0.05) & (special < 0.08)] = np.inf
        data[(special > 0.08) & (special < 0.1)] = -np.inf
        data[(special > 0.1) & (special < 0.2)] = 0.0
        data = [float(v) for v in data]
    mask = draw(st.lists(st.integers(0, 3).map(lambda v: 1 if v == 0 else 0), min_size=entries, max_size=entries)) \
        if draw(st.booleans()) else [0] * entries
    folded = draw(st.booleans())
    pop_ids = draw(st.lists(LABEL, min_size=nd, max_size=nd)) if draw(st.booleans()) else None
    layout = draw(st.sampled_from(['C', 'C', 'F', 'view', 'strided']))
    return dict(shape=shape, data=data, mask=mask, folded=folded, pop_ids=pop_ids, layout=layout)


def build(c):
    shape = tuple(c['shape'])
    data = np.array(c['data'], float).reshape(shape)
    mask = np.array(c['mask'], bool).reshape(shape)
    if c['folded']:
        # a valid folded spectrum: folded-out half zero and masked
        with np.errstate(all='ignore'):
            fd, fm = folding.fold(np.where(np.isfinite(data), data, 1.0), mask)
        ns = [s - 1 for s in shape]
        N = sum(ns)
        for idx in np.ndindex(shape):
            if 2 * sum(idx) > N:
                data[idx] = 0.0
                mask[idx] = True
    layout = c.get('layout', 'C')
    kw = dict(mask_corners=False, data_folded=bool(c['folded']))
    if layout == 'view':
        # a transposed view of a spectrum stored the other way round (what reorder_pops / swapaxes / .T return)
        fs = dadi.Spectrum(np.ascontiguousarray(data.T), mask=np.ascontiguousarray(mask.T), **kw).transpose()
        fs.pop_ids = c['pop_ids']
    elif layout == 'F':
        fs = dadi.Spectrum(np.asfortranarray(data), mask=np.asfortranarray(mask), pop_ids=c['pop_ids'], **kw)
    elif layout == 'strided':
        big = np.zeros((2 * shape[0],) + shape[1:])
        big[::2] = data
        fs = dadi.Spectrum(big[::2], mask=mask, pop_ids=c['pop_ids'], **kw)
    else:
        fs = dadi.Spectrum(data, mask=mask, pop_ids=c['pop_ids'], **kw)
    return fs, data, mask


def same_values(got, exp, precision):
    got = np.asarray(got, float)
    exp = np.asarray(exp, float)
    if got.shape != exp.shape:
        return 'shape %s != %s' % (got.shape, exp.shape)
    for idx in np.ndindex(exp.shape):
        g, e = float(got[idx]), float(exp[idx])
        if math.isnan(e):
            if not math.isnan(g):
                return 'entry %s: nan read back as %r' % (idx, g)
        elif math.isinf(e) or precision >= 17:
            if g != e:
                return 'entry %s: %r read back as %r at precision %d' % (idx, e, g, precision)
        else:
            if abs(g - e) > 1e-15 * abs(e):
                return 'entry %s: %r read back as %r at precision %d' % (idx, e, g, precision)
    return None


def _nt(c):
    d = np.array(c['data'], float)
    return len(c['shape']) >= 2 or (~np.isfinite(d)).any() or any(c['mask'][1:-1]) or c['pop_ids'] is not None


@st.composite
def file_case(draw):
    c = draw(fs_case())
    return dict(fs=c, precision=draw(st.integers(16, 20)), gz=draw(st.booleans()),
                comments=draw(st.lists(COMMENT, min_size=0, max_size=5)), mask_corners=draw(st.booleans()))


@REG.relation('R1-file-roundtrip', strategy=file_case, quick=(3000, 8), thorough=(40000, 16))
def r1(case, rec):
    """to_file / from_file: shape, values to the written precision, mask, folding flag, labels, comments; plain and gzip."""
    c = case['fs']
    fs, data, mask = build(c)
    fname = os.path.join(tmpdir(), 'rt_%d.fs%s' % (os.getpid(), '.gz' if case['gz'] else ''))
    rec.case(case, _nt(c), ['dim=%d' % data.ndim, 'gz' if case['gz'] else 'plain', 'precision=%d' % case['precision'],
                            'folded' if c['folded'] else 'unfolded', 'comments=%d' % len(case['comments']),
                            'singleton-axis' if 1 in c['shape'] else 'no-singleton', 'layout=' + c.get('layout', 'C')])
    with dadi_call('to_file(%s)' % ('gz' if case['gz'] else 'plain'), gz=case['gz']):
        fs.to_file(fname, precision=case['precision'], comment_lines=list(case['comments']))
    require(np.array_equal(np.ma.getmaskarray(fs), mask), 'to_file changed the mask of the spectrum')
    with dadi_call('from_file(%s)' % ('gz' if case['gz'] else 'plain'), gz=case['gz']):
        back, comments = dadi.Spectrum.from_file(fname, mask_corners=case['mask_corners'], return_comments=True)
        back2 = dadi.Spectrum.from_file(fname, mask_corners=case['mask_corners'])
    os.unlink(fname)
    require(back.shape == data.shape, 'shape %s read back as %s' % (data.shape, back.shape))
    emask = mask.copy()
    if case['mask_corners']:
        emask.flat[0] = emask.flat[-1] = True
    require(np.array_equal(np.ma.getmaskarray(back), emask), 'mask not preserved by the file round trip')
    msg = same_values(np.ma.getdata(back), data, case['precision'])
    require(msg is None, 'file round trip: %s' % msg)
    require(bool(back.folded) == bool(c['folded']), 'folding status %r read back as %r' % (c['folded'], back.folded))
    require(back.pop_ids == c['pop_ids'], 'labels %r read back as %r' % (c['pop_ids'], back.pop_ids))
    require(list(comments) == [x.strip() for x in case['comments']], 'comments %r read back as %r' % (case['comments'], comments))
    require(np.array_equal(np.ma.getmaskarray(back2), emask) and same_values(np.ma.getdata(back2), data, case['precision']) is None,
            'from_file without return_comments differs')


@st.composite
def old_case(draw):
    c = draw(fs_case(max_dim=4))
    c['folded'] = False
    return dict(fs=c, precision=draw(st.integers(16, 20)), comments=draw(st.lists(COMMENT, min_size=0, max_size=3)),
                writer=draw(st.sampled_from(['to_file-old', 'array_to_file', 'array_to_file-fid'])))


@REG.relation('R2-old-format-and-array-writer', strategy=old_case, quick=(1500, 4), thorough=(15000, 8))
def r2(case, rec):
    """pre-1.3 files (foldmaskinfo=False) and Numerics.array_to_file output are read consistently by Spectrum.from_file and
    Numerics.array_from_file."""
    c = case['fs']
    fs, data, mask = build(c)
    fname = os.path.join(tmpdir(), 'old_%d.fs' % os.getpid())
    rec.case(case, _nt(c), [case['writer'], 'dim=%d' % data.ndim])
    prec = case['precision']
    if case['writer'] == 'to_file-old':
        with dadi_call('to_file(foldmaskinfo=False)'):
            fs.to_file(fname, precision=prec, comment_lines=list(case['comments']), foldmaskinfo=False)
        written = data
    else:
        plain = dadi.Spectrum(data, mask=mask, mask_corners=False)
        with dadi_call('array_to_file'):
            if case['writer'] == 'array_to_file':
                Numerics.array_to_file(plain, fname, precision=prec, comment_lines=list(case['comments']))
            else:
                with open(fname, 'w') as fid:
                    Numerics.array_to_file(plain, fid, precision=prec, comment_lines=list(case['comments']))
        written = np.where(mask, np.nan, data)   # masked entries go in as the fill value, nan
    with dadi_call('array_from_file'):
        arr, com1 = Numerics.array_from_file(fname, return_comments=True)
    with dadi_call('Spectrum.from_file(old format)'):
        back, com2 = dadi.Spectrum.from_file(fname, mask_corners=False, return_comments=True)
    os.unlink(fname)
    msg = same_values(arr, written, prec)
    require(msg is None, 'array_from_file of %s output: %s' % (case['writer'], msg))
    msg = same_values(np.ma.getdata(back), written, prec)
    require(msg is None, 'Spectrum.from_file of %s output: %s' % (case['writer'], msg))
    require(not np.ma.getmaskarray(back).any(), 'old-format file read back with masked entries although mask_corners=False')
    require(not back.folded and back.pop_ids is None, 'old-format file read back folded or labelled')
    exp_com = [x.strip() for x in case['comments']]
    require(list(com1) == exp_com and list(com2) == exp_com, 'comments %r read back as %r / %r' % (exp_com, com1, com2))


@st.composite
def pickle_case(draw):
    c = draw(fs_case())
    return dict(fs=c, protocol=draw(st.integers(2, 5)),
                extrap_x=draw(st.one_of(st.none(), st.floats(1e-6, 0.5))), deep=draw(st.booleans()))


@REG.relation('R3-pickle', strategy=pickle_case, quick=(3000, 4), thorough=(30000, 8))
def r3(case, rec):
    """pickle round trip preserves data (bit for bit, incl. values under the mask), mask, folded, pop_ids, extrap_x."""
    c = case['fs']
    fs, data, mask = build(c)
    fs.extrap_x = case['extrap_x']
    rec.case(case, _nt(c), ['protocol=%d' % case['protocol'], 'dim=%d' % data.ndim])
    with dadi_call('pickle round trip'):
        back = pickle.loads(pickle.dumps(fs, protocol=case['protocol']))
    require(isinstance(back, dadi.Spectrum), 'unpickled object is %s' % type(back).__name__)
    require(back.shape == data.shape, 'shape changed by pickling')
    a, b = np.ma.getdata(back), data
    require(a.tobytes() == np.ascontiguousarray(b).tobytes(), 'data not bit-identical after pickling')
    require(np.array_equal(np.ma.getmaskarray(back), mask), 'mask changed by pickling')
    require(bool(back.folded) == bool(c['folded']), 'folded flag changed by pickling')
    require(back.pop_ids == c['pop_ids'], 'labels changed by pickling: %r' % (back.pop_ids,))
    require(back.extrap_x == case['extrap_x'], 'extrap_x %r became %r' % (case['extrap_x'], back.extrap_x))
    if case['deep']:
        import copy
        with dadi_call('deepcopy'):
            cp = copy.deepcopy(fs)
        require(np.array_equal(np.ma.getmaskarray(cp), mask) and bool(cp.folded) == bool(c['folded']) and cp.pop_ids == c['pop_ids'],
                'deepcopy lost mask/folding/labels')
