"""C18 - low-pass calling model redistributes probability and vanishes at deep coverage."""
import math
import warnings

import numpy as np
from hypothesis import strategies as st

import dadi
from dadi import Numerics
from dadi.LowPass import LowPass as LP
from harness.core import Registry, Violation, Reject, dadi_call, require, require_close
from harness.refs import lowpass_enum as E
from harness.refs import hypergeom

warnings.filterwarnings('ignore')

EXHAUSTIVE_NOTE = 'R1 enumerates every (sequenced size 2..20 even, allele count) pair for the genotype partitions (quick and thorough); other relations are sampled'

REG = Registry(
    'C18',
    rule=('R1: every even sequenced size 2..20 and allele count, both partition types, F in {0, 1e-6, random (0,1)}; R2-R3: coverage '
          'distributions over depths 0..80 by construction (Dirichlet-like, sparse, point masses, deep), sizes 2..20, subsample sizes <= '
          'sequenced (even), F in [0,1); R4: whole corrected models in 1-3 populations with sim_threshold in {0, 1e-2, 1}. Non-trivial = '
          'sequenced size >= 6, or F > 0, or subsampling below the sequenced size. Distinct by hash of the case.'),
    assumptions=['oracle: harness/refs/lowpass_enum.py - brute-force enumeration of genotype configurations (combinations_with_replacement), '
                 'multinomial x 2^hets weights, explicit convolutions',
                 'LowPass.rng and numpy global RNG are seeded from a drawn integer for the simulated regime'])


@st.composite
def cov_dist(draw, deep=False):
    kind = 'deep' if deep else draw(st.sampled_from(['dirichlet', 'dirichlet', 'sparse', 'point', 'low', 'deep']))
    D = draw(st.integers(2, 80))
    seed = draw(st.integers(0, 2 ** 31 - 1))
    return dict(kind=kind, D=D, seed=seed)


def make_cov(c):
    rs = np.random.RandomState(c['seed'])
    D = c['D']
    if c['kind'] == 'dirichlet':
        p = rs.gamma(0.7, size=D + 1)
    elif c['kind'] == 'sparse':
        p = np.zeros(D + 1)
        for i in rs.choice(D + 1, size=min(3, D + 1), replace=False):
            p[i] = rs.uniform(0.1, 1)
        if p[1:].sum() == 0:
            p[1] = 0.5
    elif c['kind'] == 'point':
        p = np.zeros(D + 1)
        p[rs.randint(1, D + 1)] = 1.0
    elif c['kind'] == 'low':
        p = np.zeros(D + 1)
        lam = rs.uniform(0.3, 3.0)
        for d in range(D + 1):
            p[d] = math.exp(-lam) * lam ** d / math.factorial(min(d, 150)) if d < 150 else 0
    else:  # deep: all mass at depth >= 60
        D = max(D, 61)
        p = np.zeros(D + 1)
        p[60:] = rs.uniform(0.1, 1, D + 1 - 60)
    p = p / p.sum()
    return np.array([np.arange(len(p)), p])


def r1_enum(tier, shard, nshards, seed):
    rs = np.random.RandomState(seed % (2 ** 31))
    n = 0
    for nseq in range(2, 21, 2):
        for F in (0, 1e-6, float(rs.uniform(0.01, 0.95))):
            if n % nshards == shard:
                # 'warm': the shared partition cache is first used for another ploidy (as from_phi_inbreeding does for polyploids)
                yield dict(nseq=nseq, F=F, warm=[None, 4, 1, 3][n % 4])
            n += 1


@REG.relation('R1-partitions', enum=r1_enum, quick=(30, 10), thorough=(30, 10))
def r1(case, rec):
    """Genotype partitions are all and only the sorted configurations of each allele count; probabilities sum to one, equal the
    enumeration oracle, and are continuous as F -> 0."""
    nseq, F = case['nseq'], case['F']
    nind = nseq // 2
    if case.get('warm'):
        for x in range(0, case['warm'] * nind + 1):
            dadi.Numerics.cached_part(x, nind, 0, case['warm'])
            dadi.Numerics.cached_part_precalc(x, nind, 0, case['warm'])
    with dadi_call('partitions_and_probabilities(genotype)'):
        parts_all, probs_all = LP.partitions_and_probabilities(nseq, 'genotype', F)
    require(len(parts_all) == nseq + 1, 'genotype partitions cover %d allele counts, expected %d' % (len(parts_all), nseq + 1))
    for af in range(nseq + 1):
        rec.case((nseq, F, af), nseq >= 6 or F > 0, ['F=0' if F == 0 else ('F->0' if F < 1e-3 else 'F>0')])
        with dadi_call('partitions_and_probabilities(allele_frequency)'):
            parts, probs = LP.partitions_and_probabilities(nseq, 'allele_frequency', F, af)
        exp_cs = E.configs(nind, af)
        got = [tuple(p) for p in parts]
        require(sorted(got) == sorted(exp_cs) and len(set(got)) == len(got),
                'partitions of allele count %d among %d individuals: got %r, expected all and only %r' % (af, nind, got, exp_cs))
        require(all(list(p) == sorted(p) for p in parts), 'a partition is not sorted')
        probs = np.asarray(probs, float)
        require(abs(probs.sum() - 1) < 1e-12 and (probs >= 0).all(), 'partition probabilities sum to %r' % probs.sum())
        if F == 0 or F < 1e-3:
            cs, ps = E.config_probs(nind, af)
        else:
            cs, ps = E.config_probs_inbred(nind, af, F)
        order = [cs.index(g) for g in got]
        tol = 1e-12 if F == 0 else (1e-4 if F < 1e-3 else 1e-9)
        require_close(probs, ps[order], 0.0, 'partition probabilities (nseq=%d, allele count %d, F=%g)' % (nseq, af, F), rec,
                      key='partition probs F=0' if F == 0 else ('partition probs F->0' if F < 1e-3 else 'partition probs F>0'), atol=tol)
        # the 'genotype' form returns the same thing per allele count
        g2 = [tuple(p) for p in parts_all[af]]
        require(g2 == got, "'genotype' and 'allele_frequency' partition lists differ for allele count %d" % af)
        require_close(np.asarray(probs_all[af], float), probs, 1e-12, "'genotype' vs 'allele_frequency' probabilities", rec, key='two forms', atol=1e-15)
    if nseq >= 2:
        try:
            LP.partitions_and_probabilities(nseq + 1, 'allele_frequency', 0, 1)
        except ValueError:
            pass
        else:
            raise Violation('odd number of haplotypes accepted')


@st.composite
def matrix_case(draw):
    nseq = draw(st.integers(1, 10)) * 2
    nsub = draw(st.integers(1, nseq // 2)) * 2
    F = draw(st.one_of(st.just(0.0), st.floats(0.01, 0.95), st.just(1e-6)))
    return dict(nseq=nseq, nsub=nsub, F=F, cov=draw(cov_dist()))


@REG.relation('R2-stochastic-matrices', strategy=matrix_case, quick=(1500, 16), thorough=(20000, 16))
def r2(case, rec):
    """projection and heterozygote-miscall matrices: non-negative, rows sum to one, equal brute-force enumeration; no-call
    probabilities and the enough-covered probability lie in [0,1] and equal their enumeration oracles."""
    nseq, nsub, F = case['nseq'], case['nsub'], case['F']
    cov = make_cov(case['cov'])
    rec.case(case, nseq >= 6 or F > 0 or nsub < nseq, ['F=0' if F == 0 else ('F->0' if F < 1e-3 else 'F>0'), case['cov']['kind'],
                                                        'sub<seq' if nsub < nseq else 'sub=seq'])
    probs_fn = E.config_probs if F < 1e-3 else (lambda n, a: E.config_probs_inbred(n, a, F))
    tol = 1e-12 if F == 0 else (1e-4 if F < 1e-3 else 1e-9)
    with dadi_call('projection_matrix'):
        P = np.asarray(LP.projection_matrix(nseq, nsub, F), float)
    require(P.shape == (nseq + 1, nsub + 1), 'projection matrix shape %s' % (P.shape,))
    require((P >= -1e-15).all(), 'projection matrix has a negative entry %r' % P.min())
    require_close(P.sum(axis=1), np.ones(nseq + 1), 1e-12, 'rows of the projection matrix sum to one', rec, key='proj rows')
    if F == 0:
        Ph = np.array([[float(hypergeom.weight(nseq, nsub, i, j)) for j in range(nsub + 1)] for i in range(nseq + 1)])
        require_close(P, Ph, 0.0, 'projection_matrix(F=0) vs hypergeometric oracle', rec, key='proj F=0', atol=1e-12)
    if nseq <= 12:
        Pe = E.individual_projection(nseq // 2, nsub // 2, probs_fn)
        require_close(P, Pe, 0.0, 'projection matrix vs sampling individuals without replacement (F=%g)' % F, rec,
                      key='proj enum', atol=max(tol, 1e-11))
    with dadi_call('calling_error_matrix'):
        T = np.asarray(LP.calling_error_matrix(cov, nsub, F), float)
    require(T.shape == (nsub + 1, nsub + 1), 'calling error matrix shape %s' % (T.shape,))
    require((T >= -1e-15).all(), 'calling error matrix has a negative entry %r' % T.min())
    require_close(T.sum(axis=1), np.ones(nsub + 1), 1e-12, 'rows of the calling error matrix sum to one', rec, key='err rows')
    Te = E.calling_error_matrix(cov[1], nsub, probs_fn)
    require_close(T, Te, 0.0, 'calling error matrix vs enumeration (F=%g)' % F, rec, key='err enum', atol=max(tol, 1e-11))
    with dadi_call('probability_of_no_call_1D_GATK_multisample'):
        nc = np.asarray(LP.probability_of_no_call_1D_GATK_multisample(cov, nseq, F), float)
    require(((nc >= -1e-15) & (nc <= 1 + 1e-12)).all(), 'no-call probability outside [0,1]: %r' % nc.tolist())
    require(abs(nc[0] - 1) < 1e-12, 'an absent allele must never be called (no-call probability %r)' % nc[0])
    nce = E.no_call_prob(cov[1], nseq, probs_fn)
    require_close(nc, nce, 0.0, 'no-call probabilities vs enumeration', rec, key='no-call', atol=max(tol, 1e-11))
    with dadi_call('probability_enough_individuals_covered'):
        pe = float(LP.probability_enough_individuals_covered(cov, nseq, nsub))
    require(-1e-15 <= pe <= 1 + 1e-12, 'probability of enough covered individuals %r outside [0,1]' % pe)
    require(abs(pe - E.enough_covered(cov[1], nseq, nsub)) < 1e-11, 'enough-covered probability %r vs binomial tail %r' % (pe, E.enough_covered(cov[1], nseq, nsub)))


@st.composite
def model_case(draw, deep=False):
    P = draw(st.integers(1, 3))
    maxn = {1: 10, 2: 4, 3: 2}[P]
    nseq = [draw(st.integers(1, maxn)) * 2 for _ in range(P)]
    nsub = [draw(st.integers(1, n // 2)) * 2 for n in nseq]
    Fs = [draw(st.one_of(st.just(0.0), st.floats(0.01, 0.9))) for _ in range(P)]
    return dict(P=P, nseq=nseq, nsub=nsub, Fs=Fs, covs=[draw(cov_dist(deep=deep)) for _ in range(P)],
                sim_threshold=draw(st.sampled_from([0, 1e-2, 1])), seed=draw(st.integers(0, 2 ** 31 - 1)),
                use_F=draw(st.booleans()))


def run_lowpass(case, sim_threshold, nsim=200):
    P, nseq, nsub = case['P'], case['nseq'], case['nsub']
    rs = np.random.RandomState(case['seed'])
    vals = rs.uniform(0.1, 5.0, size=[n + 1 for n in nseq])
    pop_ids = ['pop%d' % i for i in range(P)]
    cov = {pid: make_cov(c) for pid, c in zip(pop_ids, case['covs'])}

    def func(params, ns, pts):
        assert list(ns) == list(nseq)
        return dadi.Spectrum(vals * params[0])
    LP.rng = np.random.default_rng(case['seed'])
    np.random.seed(case['seed'] % (2 ** 32 - 1))
    Fx = list(case['Fs']) if case['use_F'] else None
    f = LP.make_low_pass_func_GATK_multisample(func, cov, pop_ids, nseq, nsub, sim_threshold=sim_threshold, Fx=Fx, nsim=nsim)
    out = f([1.5], nsub, [10])
    model = dadi.Spectrum(vals * 1.5)
    return model, out


@REG.relation('R3-total-sites', strategy=model_case, quick=(480, 16), thorough=(6000, 16))
def r3(case, rec):
    """A corrected model never has more total sites than the uncorrected one (analytic, simulated and mixed regimes); shape and
    attributes are those of the subsampled spectrum."""
    rec.case(case, True, ['P=%d' % case['P'], 'sim_threshold=%s' % case['sim_threshold'], 'inbred' if case['use_F'] and any(case['Fs']) else 'outbred'])
    with dadi_call('low-pass corrected model', regime=str(case['sim_threshold'])):
        model, out = run_lowpass(case, case['sim_threshold'])
    require(out.shape == tuple(n + 1 for n in case['nsub']), 'corrected model has shape %s, expected %s' % (out.shape, tuple(n + 1 for n in case['nsub'])))
    data = np.asarray(np.ma.getdata(out), float)
    require(np.isfinite(data).all(), 'corrected model contains non-finite entries')
    require((data >= -1e-12).all(), 'corrected model has a negative entry %r' % data.min())
    mtot = float(np.asarray(np.ma.getdata(model)).sum())
    mtot_unmasked = float(model.sum())
    ctot = float(data.sum())
    require(ctot <= mtot * (1 + 1e-12), 'corrected model has %.12g sites in total, more than the uncorrected model (%.12g)' % (ctot, mtot))
    require(float(out.sum()) <= mtot * (1 + 1e-12), 'unmasked corrected total exceeds the uncorrected total')
    require(not bool(out.folded), 'corrected model flagged folded')


@REG.relation('R4-deep-coverage', strategy=lambda: model_case(deep=True), quick=(480, 16), thorough=(6000, 16))
def r4(case, rec):
    """With deep coverage (>= 60 reads in every individual) the corrected model equals the plain projection of the model spectrum
    (sampling individuals without replacement when inbreeding is specified)."""
    case = dict(case, sim_threshold=1e-2)
    rec.case(case, any(s < n for s, n in zip(case['nsub'], case['nseq'])), ['P=%d' % case['P'], 'inbred' if case['use_F'] and any(case['Fs']) else 'outbred'])
    with dadi_call('low-pass corrected model (deep coverage)'):
        model, out = run_lowpass(case, 1e-2)
    md = np.asarray(np.ma.getdata(model), float)
    if case['use_F'] and any(case['Fs']):
        exp = md
        for k, (n, s, F) in enumerate(zip(case['nseq'], case['nsub'], case['Fs'])):
            Pm = E.individual_projection(n // 2, s // 2, E.config_probs if F == 0 else (lambda a, b, F=F: E.config_probs_inbred(a, b, F)))
            exp = np.moveaxis(np.tensordot(exp, Pm, axes=([k], [0])), -1, k)
    else:
        exp, _ = hypergeom.project(md, np.zeros(md.shape, bool), case['nsub'])
    got = np.asarray(np.ma.getdata(out), float)
    # the model's corners are masked (treated as absent by the masked-array product); compare entries fed only by unmasked ones
    mm = np.ma.getmaskarray(model)
    contrib, _ = hypergeom.project(mm.astype(float), np.zeros(md.shape, bool), case['nsub'])
    ok = contrib < 1e-300
    if not ok.any():
        raise Reject()
    require_close(got[ok], exp[ok], 1e-9, 'deep-coverage corrected model vs plain projection', rec, key='deep coverage', atol=1e-12 * np.abs(exp).max())


@REG.relation('R5-deep-coverage-simulated', strategy=lambda: model_case(deep=True), quick=(240, 16), thorough=(3000, 16))
def r5(case, rec):
    """Deep coverage in the simulated regime (sim_threshold=0): every entry of the model is redistributed according to nsim simulated
    draws, so the corrected model equals the plain projection up to Monte-Carlo error - each output entry within 7 standard errors
    (variance sum_i c_i^2 p_ij (1-p_ij) / nsim from the exact projection probabilities p_ij)."""
    nsim = 300
    case = dict(case, sim_threshold=0)
    inbred = case['use_F'] and any(case['Fs'])
    rec.case(case, any(s < n for s, n in zip(case['nsub'], case['nseq'])), ['P=%d' % case['P'], 'inbred' if inbred else 'outbred',
                                                                            'sub<seq' if any(s < n for s, n in zip(case['nsub'], case['nseq'])) else 'sub=seq'])
    with dadi_call('low-pass corrected model (deep coverage, simulated regime)'):
        model, out = run_lowpass(case, 0, nsim=nsim)
    md = np.asarray(np.ma.getdata(model), float)
    mm = np.ma.getmaskarray(model)
    mats = []
    for n, s, F in zip(case['nseq'], case['nsub'], case['Fs']):
        if inbred:
            mats.append(E.individual_projection(n // 2, s // 2, E.config_probs if F == 0 else (lambda a, b, F=F: E.config_probs_inbred(a, b, F))))
        else:
            mats.append(np.array([[float(hypergeom.weight(n, s, i, j)) for j in range(s + 1)] for i in range(n + 1)]))
    got = np.asarray(np.ma.getdata(out), float)
    exp = np.zeros(got.shape)
    var = np.zeros(got.shape)
    fed_by_masked = np.zeros(got.shape, bool)
    for idx in np.ndindex(md.shape):
        p = mats[0][idx[0]]
        for k in range(1, case['P']):
            p = np.multiply.outer(p, mats[k][idx[k]])
        if mm[idx]:
            fed_by_masked |= p > 0
            continue
        exp += md[idx] * p
        var += md[idx] ** 2 * np.clip(p * (1 - p), 0.0, None) / nsim
    ok = ~fed_by_masked
    if not ok.any():
        raise Reject()
    z = np.abs(got - exp)[ok] / (np.sqrt(var[ok]) + 1e-9 * np.abs(exp).max())
    rec.err('simulated deep coverage (max z)', float(z.max()) / 7.0 * 1e-9)
    require(z.max() <= 7.0, 'deep coverage, simulated regime: an entry of the corrected model is %.1f standard errors from the plain projection '
            '(nseq=%r nsub=%r): got %r expected %r' % (z.max(), case['nseq'], case['nsub'], got[ok][int(np.argmax(z))], exp[ok][int(np.argmax(z))]))
