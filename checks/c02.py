"""C02 - every integration path in 1-5 populations solves the documented implicit scheme."""
import math

import numpy as np
from hypothesis import strategies as st

import dadi
from dadi import Integration
import dadi.integration_c as int_c
import dadi.tridiag_cython as tridiag_mod
from harness import grids as G
from harness.core import Registry, Violation, Reject, dadi_call, require, require_close
from harness.refs import fd_scheme as fd

CRASHY = True   # raw-pointer kernels: record the in-progress case so a crashed worker still yields a replay

REG = Registry(
    'C02',
    rule=('kernel cases = (dimension 1-5, axis, per-axis grids of equal length but different values from '
          '{uniform, exponential, quadratic, random monotone}, non-negative density from {random, sparse, edges, smooth}, '
          'nu in [1e-2,1e2] log-uniform, every migration rate independently 0 or in [0,20], gamma in [-40,40], h in [0,1], '
          'beta in [0.2,5] (1-D), dt in [1e-6,1e-1] log-uniform, delj switch on/off). Non-trivial = L>=4, a non-uniform grid, '
          'gamma!=0, h!=0.5 and (dimension 1 or at least two unequal non-zero migration rates when the dimension has two). '
          'Distinct by hash of the case.'),
    assumptions=['oracle: harness/refs/fd_scheme.py, dense assembly of the flux-form scheme + LU solve',
                 'tolerance max(1e-8, 100*eps*cond(A)) relative to the largest entry of each result',
                 'the coefficient of the absorbing corner term ((0.5/nu -/+ M)*2/dx) is taken from the code: the property only '
                 'says the corners are absorbing, not how strongly',
                 'with the delj switch on, cases where |2 M dx / V| exceeds 700 on some cell (exp overflow in the Chang-Cooper '
                 'weight) are judged separately (relation R6)'])

AX = 'xyzab'
EPS = np.finfo(float).eps


def rate():
    return st.one_of(st.just(0.0), st.floats(0.0, 20.0), st.floats(0.0, 1.0))


def gamma_s():
    return st.one_of(st.just(0.0), st.floats(-40.0, 40.0), st.floats(-1.0, 1.0))


def h_s():
    return st.one_of(st.just(0.5), st.floats(0.0, 1.0), st.sampled_from([0.0, 1.0]))


@st.composite
def kernel_case(draw, dims=(1, 2, 3, 4, 5)):
    nd = draw(st.sampled_from(list(dims)))
    axis = draw(st.integers(0, nd - 1))
    maxL = {1: 30, 2: 14, 3: 10, 4: 7, 5: 5}[nd]
    L = draw(st.integers(4, maxL))
    specs = [draw(G.grid_spec(min_pts=L, max_pts=L, kinds=('uniform', 'exponential', 'random') if L < 20 else
                              ('uniform', 'exponential', 'quadratic', 'random'))) for _ in range(nd)]
    return dict(nd=nd, axis=axis, L=L, grids=specs, phi_seed=draw(st.integers(0, 2 ** 31 - 1)),
                phi_kind=draw(st.sampled_from(G.PHI_KINDS)),
                nu=draw(G.loguniform(1e-2, 1e2)), ms=[draw(rate()) for _ in range(nd - 1)],
                gamma=draw(gamma_s()), h=draw(h_s()), beta=draw(G.loguniform(0.2, 5.0)) if nd == 1 else 1.0,
                dt=draw(G.loguniform(1e-6, 1e-1)), delj=draw(st.booleans()))


def call_kernel(case, phi, gridarrs):
    nd, axis = case['nd'], case['axis']
    name = 'implicit_%dD%s' % (nd, AX[axis])
    f = getattr(int_c, name)
    p = np.ascontiguousarray(phi.copy())
    g = [np.ascontiguousarray(x) for x in gridarrs]
    if nd == 1:
        out = f(p, g[0], case['nu'], case['gamma'], case['h'], case['beta'], case['dt'], int(case['delj']))
    else:
        out = f(*([p] + g + [case['nu']] + list(case['ms']) + [case['gamma'], case['h'], case['dt'], int(case['delj'])]))
    return name, out


def kernel_nontrivial(case):
    ms = [m for m in case['ms'] if m != 0]
    mig_ok = case['nd'] == 1 or (case['nd'] == 2 and len(ms) >= 1) or (len(ms) >= 2 and len(set(ms)) >= 2)
    return (case['L'] >= 4 and any(s['kind'] != 'uniform' for s in case['grids']) and case['gamma'] != 0
            and case['h'] != 0.5 and mig_ok)


def compare_step(got, exp, cond, what, rec, minu=None, **sig):
    # cond = max(condition number of the line systems, growth factor of elimination without pivoting on them)
    tol = max(1e-8, 100 * EPS * cond)
    if tol > 1e-4:
        rec.label('vanishing pivot (documented solver unstable; not judged)')
        raise Reject()
    # (before the repair of _compute_delj / compute_delj the Chang-Cooper weight lost accuracy as eps/|u| for small |u| and this
    # tolerance had to be widened accordingly; dadi now uses the series there, so no allowance is made)
    scale = np.abs(exp).max()
    if not np.isfinite(got).all():
        raise Violation('%s: result contains %d non-finite entries (reference is finite)' % (what, (~np.isfinite(got)).sum()), **sig)
    d = np.abs(got - exp).max()
    rec.err(what.split(' ')[0], d / scale if scale > 0 else d)
    if d > tol * scale + 1e-300:
        idx = np.unravel_index(int(np.argmax(np.abs(got - exp))), exp.shape)
        raise Violation('%s: differs from the dense reference by %.3e relative (tol %.1e, cond %.1e) at %s: got %r expected %r'
                        % (what, d / scale if scale else d, tol, cond, tuple(int(i) for i in idx), float(got[idx]), float(exp[idx])), **sig)


@REG.relation('R1-kernels', strategy=kernel_case, quick=(2400, 16), thorough=(60000, 16))
def r1(case, rec):
    """Each of the 15 per-axis kernels: every line equals the dense solve of the documented scheme."""
    nd, axis, L = case['nd'], case['axis'], case['L']
    gridarrs = [G.make_grid(s) for s in case['grids']]
    phi = G.make_phi((L,) * nd, case['phi_seed'], case['phi_kind'])
    exp, info = fd.step_axis(phi, gridarrs, axis, case['nu'], case['ms'], case['gamma'], case['h'], case['dt'],
                             case['delj'], case['beta'], want_cond=True)
    if case['delj'] and info['maxu'] > 700:
        rec.label('delj-overflow (left to R6)')
        raise Reject()
    name = 'implicit_%dD%s' % (nd, AX[axis])
    rec.case(case, kernel_nontrivial(case), [name, 'delj=%d' % case['delj']] + sorted(set(s['kind'] for s in case['grids'])))
    with dadi_call(name):
        name, got = call_kernel(case, phi, gridarrs)
    compare_step(np.asarray(got), exp, info['cond'], name, rec, minu=info['minu'] if case['delj'] else None, kernel=name)


@st.composite
def precalc_case(draw):
    nd = draw(st.sampled_from([2, 3]))
    axis = draw(st.integers(0, nd - 1))
    L = draw(st.integers(3, 12 if nd == 2 else 8))
    return dict(nd=nd, axis=axis, L=L, seed=draw(st.integers(0, 2 ** 31 - 1)), dt=draw(G.loguniform(1e-6, 1e-1)),
                scale=draw(G.loguniform(1e-2, 1e4)))


@REG.relation('R2-precalc-kernels', strategy=precalc_case, quick=(1500, 8), thorough=(30000, 16))
def r2(case, rec):
    """The 5 precomputed-coefficient kernels: each line solves tridiag(a, b+1/dt, c) u = phi/dt for arbitrary coefficient arrays."""
    nd, axis, L = case['nd'], case['axis'], case['L']
    rs = np.random.RandomState(case['seed'])
    shape = (L,) * nd
    a = -rs.uniform(0, 1, shape) * case['scale']
    c = -rs.uniform(0, 1, shape) * case['scale']
    b = (np.abs(a) + np.abs(c)) * rs.uniform(1.0, 2.0, shape)
    phi = rs.uniform(0, 5, shape)
    name = 'implicit_precalc_%dD%s' % (nd, AX[axis])
    rec.case(case, True, [name])
    with dadi_call(name):
        got = getattr(int_c, name)(phi.copy(), np.ascontiguousarray(a), np.ascontiguousarray(b), np.ascontiguousarray(c), case['dt'])
    exp = np.empty(shape)
    maxcond = 0.0
    others = [k for k in range(nd) if k != axis]
    for oidx in np.ndindex(*[L] * (nd - 1)):
        sl = [None] * nd
        for k, i in zip(others, oidx):
            sl[k] = i
        sl[axis] = slice(None)
        sl = tuple(sl)
        A = np.diag(b[sl] + 1.0 / case['dt']) + np.diag(a[sl][1:], -1) + np.diag(c[sl][:-1], 1)
        exp[sl] = np.linalg.solve(A, phi[sl] / case['dt'])
        maxcond = max(maxcond, np.linalg.cond(A))
    compare_step(np.asarray(got), exp, maxcond, name, rec, kernel=name)


@st.composite
def tridiag_case(draw):
    return dict(n=draw(st.integers(2, 200)), seed=draw(st.integers(0, 2 ** 31 - 1)), dom=draw(st.floats(1.05, 5.0)),
                signs=draw(st.booleans()))


@REG.relation('R3-tridiag', strategy=tridiag_case, quick=(1500, 4), thorough=(30000, 8))
def r3(case, rec):
    """tridiag(a,b,c,r) solves the tridiagonal system (a[0] and c[-1] ignored)."""
    n = case['n']
    rs = np.random.RandomState(case['seed'])
    a = rs.uniform(-1, 1, n) if case['signs'] else -rs.uniform(0, 1, n)
    c = rs.uniform(-1, 1, n) if case['signs'] else -rs.uniform(0, 1, n)
    b = (np.abs(a) + np.abs(c)) * case['dom'] + 1e-3
    r = rs.uniform(-5, 5, n)
    rec.case(case, n >= 3, ['n>=50' if n >= 50 else 'n<50'])
    with dadi_call('tridiag'):
        got = tridiag_mod.tridiag(a.copy(), b.copy(), c.copy(), r.copy())
    A = np.diag(b) + np.diag(a[1:], -1) + np.diag(c[:-1], 1)
    exp = np.linalg.solve(A, r)
    compare_step(np.asarray(got), exp, np.linalg.cond(A), 'tridiag', rec)


def driver_args(nd, nus, ms, gammas, hs, theta0, frozen=None, as_func=False):
    """kwargs for one_pop..five_pops; ms[i][j] = rate into i+1 from j+1."""
    wrap = (lambda v: (lambda t, v=v: v)) if as_func else (lambda v: v)
    kw = {}
    if nd == 1:
        kw.update(nu=wrap(nus[0]), gamma=wrap(gammas[0]), h=wrap(hs[0]), theta0=wrap(theta0))
        return kw
    for i in range(nd):
        kw['nu%d' % (i + 1)] = wrap(nus[i])
        kw['gamma%d' % (i + 1)] = wrap(gammas[i])
        kw['h%d' % (i + 1)] = wrap(hs[i])
        for j in range(nd):
            if i != j:
                kw['m%d%d' % (i + 1, j + 1)] = wrap(ms[i][j])
        if frozen:
            kw['frozen%d' % (i + 1)] = bool(frozen[i])
    kw['theta0'] = wrap(theta0)
    return kw


DRIVERS = {1: Integration.one_pop, 2: Integration.two_pops, 3: Integration.three_pops, 4: Integration.four_pops,
           5: Integration.five_pops}


@st.composite
def driver_case(draw, multi=False, dims=(1, 2, 3, 4, 5)):
    nd = draw(st.sampled_from(list(dims)))
    maxL = {1: 30, 2: 12, 3: 9, 4: 6, 5: 5}[nd]
    L = draw(st.integers(4, maxL))
    spec = draw(G.grid_spec(min_pts=L, max_pts=L, kinds=('uniform', 'exponential', 'random')))
    nus = [draw(G.loguniform(1e-2, 1e2)) for _ in range(nd)]
    ms = [[0.0 if i == j else draw(rate()) for j in range(nd)] for i in range(nd)]
    gammas = [draw(gamma_s()) for _ in range(nd)]
    hs = [draw(h_s()) for _ in range(nd)]
    return dict(nd=nd, L=L, grid=spec, phi_seed=draw(st.integers(0, 2 ** 31 - 1)), phi_kind=draw(st.sampled_from(G.PHI_KINDS)),
                nus=nus, ms=ms, gammas=gammas, hs=hs, theta0=draw(st.floats(0.0, 10.0)), beta=draw(G.loguniform(0.2, 5.0)) if nd == 1 else 1.0,
                frac=draw(st.floats(0.05, 1.0)), steps=draw(st.integers(2, 6)) if multi else 1,
                delj=draw(st.booleans()), as_func=draw(st.booleans()))


def max_rate(case):
    nd = case['nd']
    B = 0.0
    for i in range(nd):
        B = max(B, 0.25 / case['nus'][i], sum(case['ms'][i]), 0.3 * abs(case['gammas'][i]))
    return B


@REG.relation('R4-drivers-one-step', strategy=driver_case, quick=(1200, 16), thorough=(30000, 16))
def r4(case, rec):
    """one_pop .. five_pops over a single time step = inject mutations, then one reference sweep per axis in order
    (covers the Python-side coefficient assembly of the constant-parameter drivers and the dispatch to either driver)."""
    nd, L = case['nd'], case['L']
    xx = G.make_grid(case['grid'])
    phi = G.make_phi((L,) * nd, case['phi_seed'], case['phi_kind'])
    T = case['frac'] * Integration.timescale_factor / max_rate(case) * 0.999
    exp = fd.inject(phi, [xx] * nd, T, case['theta0'])
    cond = 0.0
    maxu = 0.0
    minu = np.inf
    for ax in range(nd):
        ms = [case['ms'][ax][j] for j in range(nd) if j != ax]
        exp, info = fd.step_axis(exp, [xx] * nd, ax, case['nus'][ax], ms, case['gammas'][ax], case['hs'][ax], T,
                                 case['delj'], case['beta'], want_cond=True)
        cond = max(cond, info['cond'])
        maxu = max(maxu, info['maxu'])
        minu = min(minu, info['minu'])
    if case['delj'] and maxu > 700:
        rec.label('delj-overflow (left to R6)')
        raise Reject()
    kw = driver_args(nd, case['nus'], case['ms'], case['gammas'], case['hs'], case['theta0'], as_func=case['as_func'])
    if nd == 1:
        kw['beta'] = case['beta']
    name = DRIVERS[nd].__name__
    rec.case(case, any(g != 0 for g in case['gammas']) and case['grid']['kind'] != 'uniform',
             [name, 'func-params' if case['as_func'] else 'const-params', 'delj=%d' % case['delj']])
    old = Integration.use_delj_trick
    Integration.use_delj_trick = bool(case['delj'])
    try:
        with dadi_call(name):
            got = DRIVERS[nd](phi.copy(), xx, T, **kw)
    finally:
        Integration.use_delj_trick = old
    compare_step(np.asarray(got), exp, cond * nd, name + (' (function-valued parameters)' if case['as_func'] else ' (constant parameters)'), rec, minu=minu if case['delj'] else None, driver=name)


@REG.relation('R5-const-vs-function', strategy=lambda: driver_case(multi=True, dims=(1, 2, 3)), quick=(800, 16), thorough=(20000, 16))
def r5(case, rec):
    """Over several steps, constant parameters and functions of time returning the same constants agree (rel 1e-9)
    in 1, 2 and 3 populations - two different drivers (precomputed coefficients vs on-the-fly kernels)."""
    nd, L = case['nd'], case['L']
    xx = G.make_grid(case['grid'])
    phi = G.make_phi((L,) * nd, case['phi_seed'], case['phi_kind'])
    T = (case['steps'] - 1 + case['frac']) * Integration.timescale_factor / max_rate(case)
    tol = 1e-9
    if case['delj']:
        # Chang-Cooper exponents u = 2 M dx / V over all lines: overflow cases go to R6
        maxu, minu = 0.0, np.inf
        for ax in range(nd):
            ms = [case['ms'][ax][j] for j in range(nd) if j != ax]
            _, info = fd.step_axis(phi, [xx] * nd, ax, case['nus'][ax], ms, case['gammas'][ax], case['hs'][ax], T, True, case['beta'])
            maxu, minu = max(maxu, info['maxu']), min(minu, info['minu'])
        if maxu > 300:
            rec.label('delj-overflow (left to R6)')
            raise Reject()
    name = DRIVERS[nd].__name__
    rec.case(case, any(g != 0 for g in case['gammas']), [name, 'delj=%d' % case['delj'], 'steps=%d' % case['steps']])
    old = Integration.use_delj_trick
    Integration.use_delj_trick = bool(case['delj'])
    try:
        outs = []
        for as_func in (False, True):
            kw = driver_args(nd, case['nus'], case['ms'], case['gammas'], case['hs'], case['theta0'], as_func=as_func)
            if nd == 1:
                kw['beta'] = (lambda t, b=case['beta']: b) if as_func else case['beta']
            with dadi_call(name):
                outs.append(np.asarray(DRIVERS[nd](phi.copy(), xx, T, **kw)))
        # one function-valued parameter only (mixed dispatch)
        kw = driver_args(nd, case['nus'], case['ms'], case['gammas'], case['hs'], case['theta0'], as_func=False)
        key = 'nu' if nd == 1 else 'nu%d' % nd
        v = kw[key]
        kw[key] = lambda t, v=v: v
        if nd == 1:
            kw['beta'] = case['beta']
        with dadi_call(name):
            outs.append(np.asarray(DRIVERS[nd](phi.copy(), xx, T, **kw)))
    finally:
        Integration.use_delj_trick = old
    require(np.isfinite(outs[0]).all(), '%s with constant parameters gives non-finite densities' % name)
    require_close(outs[1], outs[0], tol, '%s: function-valued vs constant parameters' % name, rec, key='const-vs-func', driver=name)
    require_close(outs[2], outs[0], tol, '%s: one function-valued parameter vs constants' % name, rec, key='const-vs-onefunc', driver=name)


@st.composite
def overflow_case(draw):
    nd = draw(st.sampled_from([1, 2, 3]))
    L = draw(st.integers(8, 16 if nd < 3 else 10))
    return dict(nd=nd, L=L, crwd=draw(st.floats(6.0, 10.0)), phi_seed=draw(st.integers(0, 2 ** 31 - 1)),
                nu=draw(G.loguniform(10.0, 100.0)), m=draw(st.floats(5.0, 20.0)), gamma=draw(st.floats(-40.0, 40.0)),
                h=draw(h_s()), steps=draw(st.integers(1, 3)), frac=draw(st.floats(0.2, 1.0)))


@REG.relation('R6-delj-overflow', strategy=overflow_case, quick=(300, 8), thorough=(5000, 16))
def r6(case, rec):
    """delj switch on with strong advection relative to drift on fine cells (exp overflow in the Chang-Cooper weight):
    both drivers must stay finite and agree with each other."""
    nd, L = case['nd'], case['L']
    xx = G.make_grid(dict(kind='exponential', L=L, crwd=case['crwd']))
    phi = G.make_phi((L,) * nd, case['phi_seed'], 'random')
    nus = [case['nu']] * nd
    ms = [[0.0 if i == j else case['m'] for j in range(nd)] for i in range(nd)]
    gammas = [case['gamma']] * nd
    hs = [case['h']] * nd
    c2 = dict(nd=nd, nus=nus, ms=ms, gammas=gammas)
    T = (case['steps'] - 1 + case['frac']) * Integration.timescale_factor / max_rate(c2)
    xi = 0.5 * (xx[1:] + xx[:-1])
    u = 2 * fd.Mfunc(xi, [1.0] * (nd - 1), ms[0][1:], case['gamma'], case['h']) * np.diff(xx) / fd.Vfunc(xi, case['nu'])
    name = DRIVERS[nd].__name__
    rec.case(case, np.abs(u).max() > 709, [name, 'overflow' if np.abs(u).max() > 709 else 'no-overflow'])
    old = Integration.use_delj_trick
    Integration.use_delj_trick = True
    try:
        outs = []
        for as_func in (False, True):
            kw = driver_args(nd, nus, ms, gammas, hs, 1.0, as_func=as_func)
            with dadi_call(name):
                outs.append(np.asarray(DRIVERS[nd](phi.copy(), xx, T, **kw)))
    finally:
        Integration.use_delj_trick = old
    require(np.isfinite(outs[0]).all(), '%s (constant parameters, delj on) gives non-finite densities' % name, finding='delj-overflow')
    require(np.isfinite(outs[1]).all(), '%s (function-valued parameters, delj on) gives %d non-finite densities where the '
            'constant-parameter driver is finite' % (name, (~np.isfinite(outs[1])).sum()), finding='delj-overflow')
    require_close(outs[1], outs[0], 1e-9, '%s delj on: function-valued vs constant parameters' % name, rec, key='overflow const-vs-func',
                  finding='delj-overflow')
