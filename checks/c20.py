"""C20 - results are independent of call history, hash seed and memory layout; inputs are never modified in place."""
import atexit
import json
import os
import subprocess
import sys
import warnings

import numpy as np
from hypothesis import strategies as st

from harness import ops as O
from harness.core import Registry, Violation, Reject, require, VERIF

warnings.filterwarnings('ignore')

REG = Registry(
    'C20',
    rule=('an op is one public computation described by JSON arguments (harness/ops.py: %d kinds - projection, spectrum methods and '
          'statistics, sampling from phi with and without inbreeding, integration in 1-5 populations, likelihoods and residuals, '
          'low-pass helpers, the memoised Numerics helpers, Godambe uncertainties, demes import/export, data dictionaries, '
          'perturb_params, random sampling with a seeded generator, library models with and without extrapolation). R1 cases are '
          'histories of 2-40 ops; R2/R3 cases are single ops (x memory layout); R4 cases are short histories evaluated under three '
          'hash seeds. Non-trivial = a history in which some op kind occurs at least twice with different arguments (R1), an op with '
          'array or list inputs (R2), a non-C layout (R3). Distinct by hash of the case.' % len(O.OPS)),
    assumptions=['"the same call in a fresh interpreter" is evaluated in a forked child of a server process that has imported dadi and '
                 'computed nothing (harness/ops_server.py); the history itself runs in another such child, so a replay file reproduces '
                 'the failure without depending on what the check worker computed before',
                 'floating-point results are compared to 1e-12 relative within each array (measured differences are 0 except where a '
                 'different memory layout changes numpy summation order); masks, labels, integers and structure exactly',
                 'ops that use dadi\'s random sampling seed numpy\'s global generator as part of the op',
                 'Demes.output is history-dependent by design (it exports the last model run), so an export op runs its model first'])

TOL = 1e-12
CRASHY = True        # a compiled kernel handed a badly laid-out array can kill the worker: that is a violation, not a harness error
_SERVERS = {}


def server(hashseed):
    p = _SERVERS.get(hashseed)
    if p is not None and p.poll() is None:
        return p
    env = dict(os.environ)
    env['PYTHONHASHSEED'] = str(hashseed)
    p = subprocess.Popen([sys.executable, os.path.join(VERIF, 'harness', 'ops_server.py')], stdin=subprocess.PIPE, stdout=subprocess.PIPE,
                         stderr=subprocess.DEVNULL, env=env, text=True, bufsize=1)
    line = p.stdout.readline()
    if line.strip() != 'ready':
        raise RuntimeError('ops server did not start (hash seed %s): %r' % (hashseed, line))
    _SERVERS[hashseed] = p
    return p


def ask(history, hashseed=0):
    p = server(hashseed)
    p.stdin.write(json.dumps({'history': history}) + '\n')
    p.stdin.flush()
    line = p.stdout.readline()
    if not line:
        _SERVERS.pop(hashseed, None)
        raise RuntimeError('ops server died')
    return json.loads(line)


@atexit.register
def _close():
    for p in _SERVERS.values():
        try:
            p.stdin.close()
            p.terminate()
        except Exception:
            pass


def describe(a):
    return json.dumps({k: v for k, v in a.items() if k != 'prog'}, sort_keys=True)[:300]


@st.composite
def history_case(draw):
    # histories concentrate on a few op kinds so that the same caches are hit repeatedly with different arguments
    kinds = draw(st.lists(st.sampled_from(sorted(O.OPS)), min_size=1, max_size=4, unique=True))
    n = draw(st.integers(2, 40))
    return dict(history=[draw(O.op_strategy(kinds)) for _ in range(n)])


def nontrivial_history(h):
    seen = {}
    for a in h:
        seen.setdefault(a['op'], set()).add(json.dumps(a, sort_keys=True))
    return any(len(v) >= 2 for v in seen.values())


@REG.relation('R1-history-independence', strategy=history_case, quick=(192, 16), thorough=(4000, 16))
def r1(case, rec):
    """Every call in a history of 2-40 calls returns what the same call returns in a fresh interpreter; no call modifies its
    inputs or returns an alias of them."""
    h = case['history']
    rec.case(case, nontrivial_history(h), sorted(set(a['op'] for a in h)) + ['len<=10' if len(h) <= 10 else 'len>10'])
    resp = ask(h)
    for i, (a, s, f) in enumerate(zip(h, resp['seq'], resp['fresh'])):
        if f.get('error') == 'timeout' or s.get('error') == 'timeout':
            raise Reject('a call did not return within the per-case time limit (inconclusive)')
        if 'error' in f:
            if f['error'].startswith('child died'):
                raise Violation('call %d of the history (%s) kills a fresh interpreter' % (i + 1, describe(a)), op=a['op'])
            if 'error' in s:
                continue            # the call fails on its own: not a statement about history (other properties judge that)
            raise Violation('call %d of the history (%s) succeeded after %d earlier calls but fails in a fresh interpreter: %s'
                            % (i + 1, describe(a), i, f['error']), op=a['op'])
        if 'error' in s:
            raise Violation('call %d of the history (%s) failed after %d earlier calls (%s) but succeeds in a fresh interpreter'
                            % (i + 1, describe(a), i, s['error']), op=a['op'])
        d = O.same(s['result'], f['result'], TOL)
        if d:
            raise Violation('call %d of the history (%s) returned a different value than in a fresh interpreter after %d earlier calls: %s'
                            % (i + 1, describe(a), i, d), op=a['op'])
        require(not s['mutated'], 'call %d of the history (%s) modified its input(s) %s' % (i + 1, describe(a), s['mutated']), op=a['op'])
        require(not s['aliased'], 'call %d of the history (%s) returned an alias of its input(s) %s' % (i + 1, describe(a), s['aliased']), op=a['op'])


@st.composite
def single_case(draw):
    return dict(op=draw(O.op_strategy()))


@REG.relation('R2-inputs-untouched', strategy=single_case, quick=(1200, 16), thorough=(30000, 16))
def r2(case, rec):
    """No op modifies its array, spectrum, list or dictionary arguments; integrators return a fresh array."""
    a = case['op']
    cls = O.OPS[a['op']]
    try:
        r = O.run(a)
    except Exception as e:
        raise Reject('op fails on its own: %s' % str(e)[:80])
    rec.case(case, bool(cls.layouts) or a['op'] in ('perturb', 'data_dict', 'godambe'), [a['op']])
    require(not r['mutated'], '%s (%s) modified its input(s) %s in place' % (a['op'], describe(a), r['mutated']), op=a['op'])
    require(not r['aliased'], '%s (%s) returned an array sharing memory with its input(s) %s' % (a['op'], describe(a), r['aliased']), op=a['op'])


LAYOUT_OPS = sorted(k for k, c in O.OPS.items() if c.layouts)


@st.composite
def layout_case(draw):
    return dict(op=draw(O.op_strategy(LAYOUT_OPS)), layout=draw(st.sampled_from(['F', 'T', 'strided', 'neg'])))


@REG.relation('R3-memory-layout', strategy=layout_case, quick=(1200, 16), thorough=(30000, 16))
def r3(case, rec):
    """The same values handed over as Fortran-ordered, transposed, strided or negatively-strided arrays give the same result, and
    are left unchanged."""
    a, layout = case['op'], case['layout']
    try:
        base = O.run(a, 'C')
    except Exception as e:
        raise Reject('op fails on its own: %s' % str(e)[:80])
    nd = len(a.get('shape', [])) or a.get('nd', 1)
    rec.case(case, True, [a['op'], layout, 'nd=%d' % nd])
    try:
        other = O.run(a, layout)
    except Exception as e:
        raise Violation('%s (%s) works on C-contiguous arguments but raises %s: %s for %s arguments'
                        % (a['op'], describe(a), type(e).__name__, str(e)[:150], layout), op=a['op'], layout=layout)
    d = O.same(other['result'], base['result'], 1e-11)
    if d:
        raise Violation('%s (%s) gives a different result for %s array arguments than for C-contiguous ones: %s' % (a['op'], describe(a), layout, d),
                        op=a['op'], layout=layout)
    require(not other['mutated'], '%s (%s) modified its %s-layout input(s) %s' % (a['op'], describe(a), layout, other['mutated']), op=a['op'])
    require(not other['aliased'], '%s (%s) returned an alias of its %s-layout input(s) %s' % (a['op'], describe(a), layout, other['aliased']), op=a['op'])


HASH_OPS = ['demes', 'data_dict', 'spectrum-methods', 'model', 'godambe', 'lowpass', 'lowpass-model', 'numerics-caches']


@st.composite
def hash_case(draw):
    n = draw(st.integers(1, 5))
    return dict(history=[draw(O.op_strategy(HASH_OPS)) for _ in range(n)], seeds=[0, draw(st.integers(1, 2 ** 32 - 1)) % 7 + 1, 4242])


@REG.relation('R4-hash-seed', strategy=hash_case, quick=(64, 16), thorough=(1500, 16))
def r4(case, rec):
    """The same calls give the same values under different PYTHONHASHSEED values."""
    h = case['history']
    rec.case(case, True, sorted(set(a['op'] for a in h)))
    base = ask(h, case['seeds'][0])['seq']
    for hs in case['seeds'][1:]:
        other = ask(h, hs)['seq']
        for i, (a, x, y) in enumerate(zip(h, base, other)):
            if 'error' in x and 'error' in y:
                continue
            if ('error' in x) != ('error' in y):
                raise Violation('%s (%s) fails under PYTHONHASHSEED=%s but not under %s: %s' % (
                    a['op'], describe(a), hs if 'error' in y else case['seeds'][0], case['seeds'][0] if 'error' in y else hs, (x.get('error') or y.get('error'))), op=a['op'])
            d = O.same(y['result'], x['result'], TOL)
            if d:
                raise Violation('%s (%s) returns a different value under PYTHONHASHSEED=%s than under %s: %s' % (a['op'], describe(a), hs, case['seeds'][0], d), op=a['op'])


@st.composite
def edit_case(draw):
    shape = draw(st.lists(st.integers(3, 7), min_size=1, max_size=3))
    return dict(shape=shape, seed=draw(st.integers(0, 10 ** 6)), which=draw(st.sampled_from(['project', 'fold', 'stats', 'll', 'll_multinom', 'marginalize', 'sample'])),
                edit=draw(st.sampled_from(['mask', 'unmask', 'value', 'both'])), pos=draw(st.integers(0, 10 ** 6)), folded_data=draw(st.booleans()))


@REG.relation('R5-edit-and-reuse', strategy=edit_case, quick=(1500, 16), thorough=(30000, 16))
def r5(case, rec):
    """A spectrum object that is used, then edited in place (an entry masked or unmasked, a count overwritten - the usual
    data.mask[1] = True idiom), then used again gives what a freshly built spectrum with the same content gives: nothing about the
    object is remembered across calls."""
    import dadi
    from dadi import Inference
    shape = tuple(case['shape'])
    fs = O._fs(list(shape), case['seed'], False, True, True, 'C', integer=True)
    model = O._fs(list(shape), case['seed'] + 7, False, False, True, 'C')
    if case['folded_data'] and case['which'] in ('ll', 'll_multinom'):
        fs = fs.fold()
    rec.case(case, True, [case['which'], case['edit'], 'dim=%d' % len(shape)])

    def use(x):
        w = case['which']
        if w == 'project':
            return O.canon(x.project([max(1, n - 1) for n in x.sample_sizes]))
        if w == 'fold':
            return O.canon(x.fold()) if not x.folded else O.canon(x.unfold())
        if w == 'stats':
            return O.canon([x.S(), x.pi() if x.ndim == 1 else None, x.Fst() if x.ndim >= 2 else None])
        if w == 'marginalize':
            return O.canon(x.marginalize([0]) if x.ndim > 1 else x.S())
        if w == 'sample':
            np.random.seed(case['seed'] % 1000)
            return O.canon(x.sample())
        try:
            return O.canon(float(getattr(Inference, w)(model, x)))
        except Exception as e:      # e.g. no jointly unmasked entry: must fail identically for the fresh object
            return 'raises %s' % type(e).__name__
    first = use(fs)
    flat_idx = [i for i in range(1, fs.size - 1)]
    if not flat_idx:
        raise Reject('no interior entry')
    idx = np.unravel_index(flat_idx[case['pos'] % len(flat_idx)], shape)
    idx2 = np.unravel_index(flat_idx[(case['pos'] // 7) % len(flat_idx)], shape)
    if case['edit'] in ('mask', 'both'):
        fs.mask[idx] = True
    if case['edit'] == 'unmask':
        fs.mask[idx] = False
    if case['edit'] in ('value', 'both'):
        fs.data[idx2] = float(fs.data[idx2]) + 5.0
    second = use(fs)
    fresh = dadi.Spectrum(np.array(fs.data, copy=True), mask=np.array(fs.mask, copy=True), mask_corners=False, data_folded=bool(fs.folded),
                          pop_ids=list(fs.pop_ids) if fs.pop_ids is not None else None)
    ref = use(fresh)
    d = O.same(second, ref, 1e-12)
    if d:
        raise Violation('%s on a spectrum that was used, then edited in place (%s), differs from the same call on a freshly built spectrum '
                        'with the same content: %s' % (case['which'], case['edit'], d), op=case['which'])


@st.composite
def export_case(draw):
    from harness import programs as P
    prog = draw(P.program(max_pops=4, max_steps=4, allow_ancient=False))
    prog['pts'] = min(prog['pts'], 10)
    return dict(prog=prog, every=draw(st.integers(1, 2)), gt=draw(st.sampled_from([None, 25.0])))


@REG.relation('R6-repeated-export', strategy=export_case, quick=(160, 16), thorough=(3000, 16))
def r6(case, rec):
    """Demes.output() of a model that was just run returns the same graph whatever exports were made before it: exporting twice
    gives the same graph twice, and an export with deme_mapping (renamed demes) in between changes nothing in a later plain export."""
    import dadi
    from harness import programs as P
    from harness.core import dadi_call
    prog = case['prog']
    f = P.features(prog)
    rec.case(case, f['max_pops'] >= 2, ['pops=%d' % f['max_pops'], 'years' if case['gt'] else 'generations'])
    kw = dict(Nref=prog['N0'], generation_time=case['gt'])
    with dadi_call('native program, then Demes.output three times'):
        P.run_native(prog)
        first = dadi.Demes.output(**kw).asdict()
        again = dadi.Demes.output(**kw).asdict()
        ids = [d['name'] for d in first['demes']]
        mapping = {'renamed_%d' % i: [ids[i]] for i in range(0, len(ids), case['every'])}
        mapped = dadi.Demes.output(deme_mapping=mapping, **kw).asdict()
        plain = dadi.Demes.output(**kw).asdict()
    d = O.same(O.canon(again), O.canon(first), 1e-12)
    require(not d, 'a second Demes.output() of the same model differs from the first: %s' % d, op='export')
    names = [x['name'] for x in mapped['demes']]
    require(all(('renamed_%d' % i) in names for i in range(0, len(ids), case['every'])), 'deme_mapping did not rename the demes: %r' % names, op='export')
    d = O.same(O.canon(plain), O.canon(first), 1e-12)
    require(not d, 'Demes.output() after an export with deme_mapping differs from the export made before it (deme names now %r, before %r): %s'
            % ([x['name'] for x in plain['demes']], ids, d), op='export-after-mapping')
