"""C05 - sampling a spectrum from phi is exact binomial integration on every code path."""
import logging
import math

import numpy as np
from hypothesis import strategies as st

import dadi
from dadi import Numerics
from harness import grids as G
from harness.core import Registry, Violation, Reject, dadi_call, require, require_close
from harness.refs import sampling as S
from harness.refs import hypergeom

logging.getLogger('Spectrum_mod').setLevel(logging.ERROR)

REG = Registry(
    'C05',
    rule=('cases = (dimension 1-5, grid of 4-30 points from {uniform, exponential, quadratic, random} shared by all populations or, in a '
          'quarter of the multi-population cases of the semi-analytic and direct paths, one grid per population; density from '
          '{random, sparse, edges, smooth}, sample sizes 1-40 per population (smaller in 4-D/5-D), path in {semi-analytic, direct, '
          'direct+het_ascertained, admix_props, inbreeding}). Non-trivial = non-uniform grid and n>=3 somewhere and (dimension>=2 or a '
          'special option). Distinct by hash of the case.'),
    assumptions=['oracle: harness/refs/sampling.py - Gauss-Legendre integration of binomial x hat basis per interval (exact for the '
                 'polynomial integrand), trapezoid x binomial for the direct paths, numpy.convolve of beta-binomial pmfs for inbreeding',
                 'the semi-analytic path requires the same grid in every dimension (it raises otherwise), so one shared grid is used'])


@st.composite
def phi_case(draw, dims=(1, 2, 3, 4, 5), max_n=None):
    nd = draw(st.sampled_from(list(dims)))
    maxL = {1: 30, 2: 16, 3: 10, 4: 7, 5: 5}[nd]
    L = draw(st.integers(4, maxL))
    kinds = ('uniform', 'exponential', 'random', 'quadratic') if L >= 20 else ('uniform', 'exponential', 'random')
    spec = draw(G.grid_spec(min_pts=L, max_pts=L, kinds=kinds))
    mn = max_n or {1: 40, 2: 14, 3: 7, 4: 4, 5: 3}[nd]
    ns = [draw(st.integers(1, mn)) for _ in range(nd)]
    # one grid per population (from_phi takes a list of them): 0 = the case's grid, k > 0 = another grid of the same length
    ag = [0] * nd
    if nd >= 2 and draw(st.integers(0, 3)) == 0:
        ag = [draw(st.integers(0, 2)) for _ in range(nd)]
    return dict(nd=nd, L=spec['L'], grid=spec, phi_seed=draw(st.integers(0, 2 ** 31 - 1)), phi_kind=draw(st.sampled_from(G.PHI_KINDS)),
                ns=ns, axis_grids=ag)


def grids_of(c, xx, analytic=False):
    """the list of per-population grids of a case; the semi-analytic path needs the first two populations on the same grid"""
    ag = list(c.get('axis_grids') or [0] * c['nd'])
    if analytic and len(ag) >= 2:
        ag[0] = ag[1] = 0
    out = []
    for k in ag:
        if k == 0:
            out.append(xx)
        else:
            rs = np.random.RandomState((c['phi_seed'] + 101 * k) % (2 ** 31))
            inner = np.sort(rs.uniform(0.02, 0.98, len(xx) - 2))
            inner = 0.02 + 0.96 * (inner - inner.min() + 0.05) / (inner.max() - inner.min() + 0.1) if len(inner) > 1 else inner
            out.append(np.concatenate([[0.0], np.maximum.accumulate(inner + 1e-6 * np.arange(len(inner))), [1.0]]))
    return out, any(k != 0 for k in ag)


def build(c):
    xx = G.make_grid(c['grid'])
    phi = G.make_phi((len(xx),) * c['nd'], c['phi_seed'], c['phi_kind'])
    return xx, phi


def _nt(c, special=False):
    return c['grid']['kind'] != 'uniform' and max(c['ns']) >= 3 and (c['nd'] >= 2 or special)


def data_of(fs):
    return np.asarray(np.ma.getdata(fs), float)


def roundoff(phi, xx, nd):
    """Absolute round-off bound of the semi-analytic path: its weights are differences of incomplete beta functions (O(1), absolute
    error ~eps each) divided by the grid spacing, so every |phi| value contributes up to ~eps/min(dx) of itself."""
    return 4 * np.finfo(float).eps * nd * float(np.abs(phi).sum()) / float(np.diff(xx).min())


@REG.relation('R1-analytic-path', strategy=phi_case, quick=(1600, 16), thorough=(30000, 16))
def r1(c, rec):
    """Semi-analytic path (1-5 dimensions) = exact integral of binomial sampling against the piecewise-multilinear interpolant;
    total = trapezoid mass; linear in phi; labels and extrap_x set; input untouched."""
    xx, phi = build(c)
    nd, ns = c['nd'], c['ns']
    xxs, differ = grids_of(c, xx, analytic=True)
    rec.case(c, _nt(c), ['dim=%d' % nd, c['grid']['kind']] + (['per-population grids'] if differ else []))
    phi0 = phi.copy()
    with dadi_call('from_phi (semi-analytic)', path='analytic', dim=nd):
        fs = dadi.Spectrum.from_phi(phi, ns, list(xxs), mask_corners=False, pop_ids=['p%d' % i for i in range(nd)])
    require(np.array_equal(phi, phi0), 'from_phi modified phi')
    exp = S.contract(phi, [S.W_hat(n, g) for n, g in zip(ns, xxs)])
    rnd = max(roundoff(phi, g, nd) for g in xxs)
    require_close(data_of(fs), exp, 1e-10 * max(ns), 'semi-analytic spectrum vs exact hat-basis integral', rec, key='analytic',
                  atol=1e-14 * np.abs(exp).max() + rnd, path='analytic', dim=nd)
    mass = float(S.contract(phi, [S.trapz_weights(g)[None, :] for g in xxs]).ravel()[0])
    require_close(data_of(fs).sum(), mass, 1e-10, 'sum of all entries vs trapezoid mass of phi', rec, key='analytic total',
                  atol=1e-300 + rnd * float(np.prod([n + 1 for n in ns])))
    require(fs.pop_ids == ['p%d' % i for i in range(nd)], 'pop_ids not set')
    require(fs.extrap_x == xx[1], 'extrap_x is not the first grid point above zero')
    require(not np.ma.getmaskarray(fs).any(), 'mask_corners=False ignored')
    fs2 = dadi.Spectrum.from_phi(phi, ns, list(xxs))
    m = np.ma.getmaskarray(fs2)
    require(m.flat[0] and m.flat[-1] and m.sum() == 2, 'default mask is not exactly the two corners')


@st.composite
def direct_case(draw):
    c = draw(phi_case(dims=(1, 2, 3, 4)))
    het = draw(st.sampled_from([None, None, 'xx', 'yy', 'zz']))
    if het is not None and 'xyz'.index(het[0]) >= c['nd']:
        het = None
    return dict(c, het=het)


@REG.relation('R2-direct-path', strategy=direct_case, quick=(1200, 16), thorough=(20000, 16))
def r2(c, rec):
    """Direct path (1-4 dimensions, optional het_ascertained) = trapezoid rule of binomial x phi; total = trapezoid mass."""
    xx, phi = build(c)
    nd, ns, het = c['nd'], c['ns'], c['het']
    xxs, differ = grids_of(c, xx)
    rec.case(c, _nt(c, het is not None), ['dim=%d' % nd, 'het=%s' % het] + (['per-population grids'] if differ else []))
    kw = dict(het_ascertained=het) if het else dict(force_direct=True)
    with dadi_call('from_phi (direct)', path='direct', dim=nd):
        fs = dadi.Spectrum.from_phi(phi, ns, list(xxs), mask_corners=False, **kw)
    Ws = [S.W_trap(n, g, het=(het is not None and 'xyz'.index(het[0]) == k)) for k, (n, g) in enumerate(zip(ns, xxs))]
    exp = S.contract(phi, Ws)
    require_close(data_of(fs), exp, 1e-10 * max(ns), 'direct-path spectrum vs trapezoid oracle', rec, key='direct',
                  atol=1e-14 * np.abs(exp).max(), path='direct', dim=nd)
    if het is None:
        mass = float(S.contract(phi, [S.trapz_weights(g)[None, :] for g in xxs]).ravel()[0])
        require_close(data_of(fs).sum(), mass, 1e-10, 'sum of all entries (direct) vs trapezoid mass', rec, key='direct total', atol=1e-300)


@st.composite
def proj_case(draw):
    c = draw(phi_case(dims=(1, 2, 3, 4)))
    ms = [draw(st.integers(1, n)) for n in c['ns']]
    over = draw(st.lists(st.integers(0, c['nd'] - 1), min_size=1, max_size=max(1, c['nd'] - 1), unique=True)) if c['nd'] >= 2 else []
    return dict(c, ms=ms, over=over, direct=draw(st.booleans()), a=draw(st.floats(-2, 2)), b=draw(st.floats(-2, 2)),
                phi2_seed=draw(st.integers(0, 2 ** 31 - 1)))


@REG.relation('R3-project-marginalize-linear', strategy=proj_case, quick=(1000, 16), thorough=(20000, 16))
def r3(c, rec):
    """from_phi(n).project(m) = from_phi(m); marginalising a population before or after sampling agree; linear in phi."""
    xx, phi = build(c)
    nd, ns, ms = c['nd'], c['ns'], c['ms']
    kw = dict(force_direct=True) if c['direct'] else {}
    rec.case(c, _nt(c), ['dim=%d' % nd, 'direct' if c['direct'] else 'analytic'])
    with dadi_call('from_phi'):
        big = dadi.Spectrum.from_phi(phi, ns, [xx] * nd, mask_corners=False, **kw)
        small = dadi.Spectrum.from_phi(phi, ms, [xx] * nd, mask_corners=False, **kw)
        proj = big.project(ms)
    require_close(data_of(proj), data_of(small), 1e-9, 'from_phi(n).project(m) vs from_phi(m)', rec, key='sample-then-project',
                  atol=1e-13 * np.abs(data_of(small)).max() + 2 * roundoff(phi, xx, nd))
    if c['over']:
        over = sorted(c['over'])
        keep = [k for k in range(nd) if k not in over]
        phim = phi
        for a in reversed(over):
            phim = np.tensordot(phim, S.trapz_weights(xx), axes=([a], [0]))
        with dadi_call('from_phi of marginal density'):
            if len(keep) >= 1:
                fm = dadi.Spectrum.from_phi(phim, [ns[k] for k in keep], [xx] * len(keep), mask_corners=False, **kw)
        marg = data_of(big)
        for a in reversed(over):
            marg = marg.sum(axis=a)
        require_close(marg, data_of(fm), 1e-9, 'sampling then summing over populations %s vs integrating them out of phi first' % over,
                      rec, key='marginalise-before-after',
                      atol=1e-13 * np.abs(marg).max() + 2 * roundoff(phi, xx, nd) * float(np.prod([ns[a] + 1 for a in over])))
    phi2 = G.make_phi(phi.shape, c['phi2_seed'], 'random')
    with dadi_call('from_phi'):
        f2 = dadi.Spectrum.from_phi(phi2, ns, [xx] * nd, mask_corners=False, **kw)
        fc = dadi.Spectrum.from_phi(c['a'] * phi + c['b'] * phi2, ns, [xx] * nd, mask_corners=False, **kw)
    exp = c['a'] * data_of(big) + c['b'] * data_of(f2)
    scale = abs(c['a']) * np.abs(data_of(big)).max() + abs(c['b']) * np.abs(data_of(f2)).max()
    require_close(data_of(fc), exp, 0.0, 'linearity of from_phi in phi', rec, key='linearity', atol=1e-10 * scale + 1e-300)


@st.composite
def admix_case(draw):
    c = draw(phi_case(dims=(2, 3, 4), max_n=None))
    nd = c['nd']
    c['ns'] = [min(n, {2: 8, 3: 4, 4: 3}[nd]) for n in c['ns']]
    c['L'] = min(c['L'], {2: 12, 3: 7, 4: 5}[nd])
    c['grid'] = dict(c['grid'], L=c['L']) if c['grid']['kind'] != 'quadratic' else dict(kind='exponential', L=c['L'], crwd=8.0)
    kind = draw(st.sampled_from(['identity', 'stochastic', 'stochastic', 'bad']))
    rows = []
    for p in range(nd):
        if kind == 'identity':
            rows.append([1.0 if q == p else 0.0 for q in range(nd)])
        else:
            w = [draw(st.floats(0.0, 1.0)) for _ in range(nd)]
            if sum(w) == 0:
                w[p] = 1.0
            s = sum(w)
            rows.append([v / s for v in w])
    if kind == 'bad':
        p = draw(st.integers(0, nd - 1))
        f = draw(st.sampled_from([0.5, 0.9, 1.1, 2.0]))        # one factor for the whole row, so that it sums to f, not 1
        rows[p] = [v * f for v in rows[p]]
    # per-population grids in half the cases (seed C05h: population 3's frequency read from population 2's grid in the 4-D path)
    ag = c['axis_grids']
    if draw(st.booleans()):
        ag = [draw(st.integers(0, 2)) for _ in range(nd)]
    return dict(c, props=rows, kind=kind, axis_grids=ag)


@REG.relation('R4-admix-props', strategy=admix_case, quick=(500, 16), thorough=(8000, 16))
def r4(c, rec):
    """admix_props: identity proportions = direct path; row-stochastic matrices = binomial at the mixed frequency;
    rows not summing to one are rejected."""
    xx, phi = build(c)
    nd, ns = c['nd'], c['ns']
    grids, perpop = grids_of(c, xx)
    rec.case(c, c['kind'] != 'identity' and c['grid']['kind'] != 'uniform', ['dim=%d' % nd, c['kind']] + (['per-population grids'] if perpop else []))
    props = tuple(tuple(r) for r in c['props'])
    if c['kind'] == 'bad':
        try:
            dadi.Spectrum.from_phi(phi, ns, grids, admix_props=props)
        except ValueError:
            return
        except Exception as e:
            raise Violation('admixture proportions with a row not summing to 1 raised %s, not ValueError' % type(e).__name__)
        raise Violation('admixture proportions %r (a row does not sum to 1) were accepted' % (props,))
    with dadi_call('from_phi(admix_props)', path='admix', dim=nd):
        fs = dadi.Spectrum.from_phi(phi, ns, grids, mask_corners=False, admix_props=props)
    exp = S.admix_spectrum(phi, ns, grids, props)
    require_close(data_of(fs), exp, 1e-10 * max(ns), 'admix_props spectrum vs oracle', rec, key='admix', atol=1e-14 * np.abs(exp).max(),
                  path='admix', dim=nd)
    require_close(data_of(fs).sum(), float(S.contract(phi, [S.trapz_weights(g)[None, :] for g in grids]).ravel()[0]), 1e-10,
                  'admixed sampling probabilities sum to one (total = trapezoid mass)', rec, key='admix total', atol=1e-300)
    if c['kind'] == 'identity':
        with dadi_call('from_phi(direct)'):
            d = dadi.Spectrum.from_phi(phi, ns, grids, mask_corners=False, force_direct=True)
        require_close(data_of(fs), data_of(d), 1e-11, 'identity admix_props vs direct path', rec, key='admix identity', atol=1e-300)
    require(perpop or fs.extrap_x == xx[1], 'extrap_x not set on the admix_props path')


@st.composite
def inbreeding_case(draw):
    nd = draw(st.sampled_from([1, 2, 3]))
    L = draw(st.integers(4, {1: 14, 2: 9, 3: 6}[nd]))
    spec = draw(G.grid_spec(min_pts=L, max_pts=L, kinds=('uniform', 'exponential', 'random')))
    ploidys = [draw(st.integers(2, 8)) for _ in range(nd)]
    ninds = [draw(st.integers(1, {1: 5, 2: 3, 3: 2}[nd])) for _ in range(nd)]
    Fs = [draw(st.one_of(st.floats(0.01, 0.95), st.sampled_from([0.5, 1e-3]))) for _ in range(nd)]
    return dict(nd=nd, L=L, grid=spec, phi_seed=draw(st.integers(0, 2 ** 31 - 1)), phi_kind=draw(st.sampled_from(G.PHI_KINDS)),
                ploidys=ploidys, ninds=ninds, Fs=Fs, mode=draw(st.sampled_from(['general', 'general', 'small-F', 'zero-F', 'mixed-zero'])),
                het=draw(st.sampled_from([None, None, None, 'xx', 'yy'])),
                # one grid per population in half the multi-population cases (used by the general branch; lesson of seed C05h)
                axis_grids=[draw(st.integers(0, 2)) for _ in range(nd)] if nd >= 2 and draw(st.booleans()) else [0] * nd)


@REG.relation('R5-inbreeding', strategy=inbreeding_case, quick=(400, 16), thorough=(6000, 16))
def r5(c, rec):
    """Inbreeding path: per-individual beta-binomial convolved over individuals (ploidy 2-8); probabilities sum to one;
    F -> 0 approaches the direct path; F = 0 dispatches to from_phi."""
    nd = c['nd']
    xx = G.make_grid(c['grid'])
    phi = G.make_phi((len(xx),) * nd, c['phi_seed'], c['phi_kind'])
    ploidys, ns = c['ploidys'], [p * k for p, k in zip(c['ploidys'], c['ninds'])]
    het = c['het']
    if het is not None and ('xyz'.index(het[0]) >= nd):
        het = None
    rec.case(c, c['grid']['kind'] != 'uniform', ['dim=%d' % nd, c['mode'], 'het=%s' % het] + ['ploidy=%d' % p for p in set(ploidys)])
    # BetaBinomConvolution itself sums to one and equals the convolution oracle
    p0, k0, F0 = ploidys[0], c['ninds'][0], c['Fs'][0]
    x0 = float(xx[len(xx) // 2])
    a0, b0 = x0 * (1 - F0) / F0, (1 - x0) * (1 - F0) / F0
    with dadi_call('BetaBinomConvolution'):
        pm = np.array([Numerics.BetaBinomConvolution(i, k0, a0, b0, ploidy=p0) for i in range(p0 * k0 + 1)])
    require_close(pm, S.inbreeding_pmf(p0 * k0, p0, x0, F0), 1e-9, 'BetaBinomConvolution vs convolution oracle', rec, key='betabinom conv', atol=1e-13)
    require(abs(pm.sum() - 1.0) < 1e-9, 'inbreeding sampling probabilities sum to %r, not 1' % pm.sum())
    if c['mode'] == 'zero-F':
        with dadi_call('from_phi_inbreeding(F=0)'):
            fs = dadi.Spectrum.from_phi_inbreeding(phi, ns, [xx] * nd, [0.0] * nd, ploidys, mask_corners=False)
            d = dadi.Spectrum.from_phi(phi, ns, [xx] * nd, mask_corners=False, force_direct=True)
        require_close(data_of(fs), data_of(d), 1e-12, 'from_phi_inbreeding with F=0 vs from_phi', rec, key='F=0 dispatch', atol=1e-300)
        return
    if c['mode'] == 'small-F':
        Fs = [1e-6] * nd
        with dadi_call('from_phi_inbreeding(F=1e-6)'):
            fs = dadi.Spectrum.from_phi_inbreeding(phi, ns, [xx] * nd, Fs, ploidys, mask_corners=False)
            d = dadi.Spectrum.from_phi(phi, ns, [xx] * nd, mask_corners=False, force_direct=True)
        require_close(data_of(fs), data_of(d), 1e-4, 'from_phi_inbreeding(F=1e-6) vs the direct path', rec, key='F->0', atol=1e-6 * np.abs(data_of(d)).max())
        return
    Fs = list(c['Fs'])
    if c['mode'] == 'mixed-zero':
        if nd == 1:
            raise Reject()
        # one population outbred (F exactly 0), the others inbred: plain binomial sampling in that population
        if rec.known(finding='mixed-zero-F'):
            return
        Fs[0] = 0.0
        with dadi_call('from_phi_inbreeding(some F = 0)', finding='mixed-zero-F'):
            fs = dadi.Spectrum.from_phi_inbreeding(phi, ns, [xx] * nd, Fs, ploidys, mask_corners=False)
        Ws = [S.W_trap(ns[0], xx)] + [S.W_inbreeding(n, p, xx, F) for n, p, F in list(zip(ns, ploidys, Fs))[1:]]
        exp = S.contract(phi, Ws)
        require(np.isfinite(data_of(fs)).all(), 'from_phi_inbreeding with Fs=%r (one population not inbred) returns non-finite entries' % (Fs,),
                finding='mixed-zero-F')
        require_close(data_of(fs), exp, 1e-6, 'inbreeding spectrum with one F = 0 vs oracle', rec, key='mixed zero F',
                      atol=1e-8 * np.abs(exp).max(), finding='mixed-zero-F')
        return
    kw = dict(het_ascertained=het) if het else {}
    grids, perpop = grids_of(c, xx)
    if perpop:
        rec.label('per-population grids')
    with dadi_call('from_phi_inbreeding', path='inbreeding', dim=nd, het=het):
        fs = dadi.Spectrum.from_phi_inbreeding(phi, ns, grids, Fs, ploidys, mask_corners=False, **kw)
    Ws = [S.W_inbreeding(n, p, grids[k], F, het=(het is not None and 'xyz'.index(het[0]) == k)) for k, (n, p, F) in enumerate(zip(ns, ploidys, Fs))]
    exp = S.contract(phi, Ws)
    require_close(data_of(fs), exp, 1e-8, 'inbreeding spectrum vs convolution oracle', rec, key='inbreeding', atol=1e-12 * np.abs(exp).max(),
                  path='inbreeding', dim=nd)
    if het is None:
        require_close(data_of(fs).sum(), float(S.contract(phi, [S.trapz_weights(g)[None, :] for g in grids]).ravel()[0]), 1e-8,
                      'sum of all entries (inbreeding) vs trapezoid mass', rec, key='inbreeding total', atol=1e-300)


@st.composite
def overshoot_case(draw):
    c = draw(phi_case(dims=(1, 2, 3)))
    return dict(c, order=draw(st.booleans()), lo=draw(st.sampled_from([0.0, -1e-16, -5e-17])), hi=draw(st.sampled_from([0.0, 2.220446049250313e-16])))


@REG.relation('R6-grid-overshoot', strategy=overshoot_case, quick=(600, 8), thorough=(8000, 16))
def r6(c, rec):
    """Grids overshooting [0,1] by ~1e-16 give the same spectrum, and do not poison the memoised beta differences of the clean grid
    (checked in both evaluation orders)."""
    xx, phi = build(c)
    nd, ns = c['nd'], c['ns']
    bad = xx.copy()
    bad[0] += c['lo']
    bad[-1] += c['hi']
    rec.case(c, (c['lo'] != 0 or c['hi'] != 0), ['dim=%d' % nd, 'clean-first' if c['order'] else 'overshoot-first'])
    exp = S.contract(phi, [S.W_hat(n, xx) for n in ns])

    def clean():
        with dadi_call('from_phi (clean grid)'):
            return data_of(dadi.Spectrum.from_phi(phi, ns, [xx] * nd, mask_corners=False))

    def over():
        with dadi_call('from_phi (grid overshooting [0,1] by 1e-16)'):
            return data_of(dadi.Spectrum.from_phi(phi, ns, [bad] * nd, mask_corners=False))
    if c['order']:
        a, b = clean(), over()
    else:
        b, a = over(), clean()
    require(np.isfinite(b).all(), 'overshooting grid gives non-finite spectrum')
    require_close(a, exp, 1e-10 * max(ns), 'clean-grid spectrum (evaluated %s the overshooting grid)' % ('before' if c['order'] else 'after'),
                  rec, key='clean', atol=1e-14 * np.abs(exp).max() + roundoff(phi, xx, nd))
    require_close(b, exp, 1e-9 * max(ns), 'overshooting-grid spectrum vs clean oracle', rec, key='overshoot',
                  atol=1e-12 * np.abs(exp).max() + roundoff(phi, xx, nd))
