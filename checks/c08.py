"""C08 - projection is hypergeometric subsampling: conserving, composable, mask-monotone."""
import itertools
import math
from fractions import Fraction

import numpy as np
from hypothesis import strategies as st

import dadi
from dadi import Numerics
from harness import gens
from harness.core import as_container, Registry, Violation, dadi_call, require, require_close
from harness.refs import folding, hypergeom

EXHAUSTIVE_NOTE = 'R1 enumerates every (n, m, hits) with 1 <= m <= n <= 40 (quick and thorough); all other relations are sampled'

REG = Registry(
    'C08',
    rule=('R1: all (n,m,hits), 1<=m<=n<=40, each in two evaluation orders; R2: random n<=200; R3-R6: random spectra of 1-4 '
          'dimensions with random masks/labels/folding and random target sizes. Non-trivial = m<n on at least one axis and '
          '(mask present or dimension>=2) for spectra; every triple with m<n for R1/R2. Distinct by hash of the case.'),
    assumptions=['oracle: C(m,j)C(n-m,i-j)/C(n,i) from math.comb as exact Fractions, rounded once to double'])


def r1_enum(tier, shard, nshards, seed):
    ns = list(range(1, 41))
    for n in ns:
        if n % nshards != shard:
            continue
        yield dict(n=n)


@REG.relation('R1-weights-exhaustive', enum=r1_enum, quick=(40, 8), thorough=(40, 8))
def r1(case, rec):
    """_cached_projection(m, n, hits) equals the exact hypergeometric pmf for every 1<=m<=n, 0<=hits<=n (this n)."""
    n = case['n']
    triples = [(m, hits) for m in range(1, n + 1) for hits in range(n + 1)]
    # two evaluation orders: ascending, then a hits-major descending order (re-reads the cache with other neighbours)
    for order in (triples, sorted(triples, key=lambda t: (-t[1], -t[0]))):
        for m, hits in order:
            with dadi_call('_cached_projection(%d,%d,%d)' % (m, n, hits)):
                got = np.array(Numerics._cached_projection(m, n, hits), dtype=float)
            exp = np.array([float(w) for w in hypergeom.weights(n, m, hits)])
            rec.case((n, m, hits), m < n, labels=[])
            require(got.shape == exp.shape, 'weights for (m=%d,n=%d,hits=%d) have shape %s' % (m, n, hits, got.shape))
            d = np.abs(got - exp).max()
            rec.err('weights abs', d)
            if d > 1e-10 * max(exp.max(), 1e-300) + 1e-15:
                raise Violation('projection weights (to=%d, from=%d, hits=%d) differ from exact hypergeometric by %.3e: got %r expected %r'
                                % (m, n, hits, d, got.tolist(), exp.tolist()))
            require(abs(got.sum() - 1.0) < 1e-10, 'weights (to=%d, from=%d, hits=%d) sum to %r' % (m, n, hits, got.sum()))


@st.composite
def big_triple(draw):
    n = draw(st.integers(41, 200))
    m = draw(st.integers(1, n))
    hits = draw(st.integers(0, n))
    return dict(n=n, m=m, hits=hits, first=draw(st.lists(st.tuples(st.integers(1, 60), st.integers(0, 60)), max_size=3)))


@REG.relation('R2-weights-random', strategy=big_triple, quick=(1500, 4), thorough=(30000, 16))
def r2(case, rec):
    n, m, hits = case['n'], case['m'], case['hits']
    rec.case(case, m < n)
    for (mm, hh) in case['first']:
        mm = min(mm, n)
        Numerics._cached_projection(mm, n, min(hh, n))
    with dadi_call('_cached_projection'):
        got = np.array(Numerics._cached_projection(m, n, hits), dtype=float)
    exp = np.array([float(w) for w in hypergeom.weights(n, m, hits)])
    d = np.abs(got - exp).max()
    rec.err('weights abs', d)
    if d > 1e-10 * exp.max() + 1e-15:
        raise Violation('projection weights (to=%d, from=%d, hits=%d) differ from exact hypergeometric by %.3e' % (m, n, hits, d))


@st.composite
def proj_case(draw, folded=False, min_dim=1):
    nd = draw(st.integers(min_dim, 4))
    max_n = {1: 60, 2: 12, 3: 7, 4: 5}[nd]
    fs = draw(gens.spectrum_case(min_dim=nd, max_dim=nd, min_n=1, max_n=max_n, folded=folded, values='counts'))
    ns = [s - 1 for s in fs['shape']]
    ms = [draw(st.integers(1, n)) for n in ns]
    mid = [draw(st.integers(m, n)) for m, n in zip(ms, ns)]
    perm = list(draw(st.permutations(range(nd))))
    return dict(fs=fs, ms=ms, mid=mid, perm=perm)


def _nontrivial(case):
    ns = [s - 1 for s in case['fs']['shape']]
    return any(m < n for m, n in zip(case['ms'], ns)) and (len(ns) >= 2 or any(case['fs']['mask'][1:-1]))


@REG.relation('R3-project-oracle', strategy=lambda: proj_case(folded=False), quick=(3000, 8), thorough=(40000, 16))
def r3(case, rec):
    """Unfolded spectra: every entry and every mask bit equal the explicit hypergeometric sum; totals, two-stage,
    axis-order, label and extrap_x behaviour."""
    c = case['fs']
    fs = gens.make_fs(c)
    data, mask = gens.arrays(c)
    ms, mid, perm = case['ms'], case['mid'], case['perm']
    ns = [s - 1 for s in c['shape']]
    rec.case(case, _nontrivial(case), labels=['dim=%d' % len(ns), 'masked' if mask.any() else 'nomask'])
    before = (fs.data.copy(), fs.mask.copy())
    with dadi_call('Spectrum.project'):
        got = fs.project(ms)
    require(np.array_equal(fs.data, before[0]) and np.array_equal(fs.mask, before[1]), 'project modified its input')
    edata, emask = hypergeom.project(data, mask, ms)
    gens.fs_equal(got, edata, emask, 1e-11, 'project(%s -> %s)' % (ns, ms), rec, key='project')
    require(got.pop_ids == c['pop_ids'], 'labels not preserved by project: %r != %r' % (got.pop_ids, c['pop_ids']))
    require(got.folded is False or got.folded == False, 'projection of an unfolded spectrum is marked folded')
    # mask exactness both directions is part of fs_equal (mask arrays identical).
    # total conserved for unmasked input
    if not mask.any():
        require_close(got.data.sum(), data.sum(), 1e-11, 'total count after projection', rec, atol=1e-290)     # totals in the subnormal range are not judged
    # two-stage = one-stage
    with dadi_call('two-stage projection'):
        two = fs.project(mid).project(ms)
    gens.fs_equal(two, edata, emask, 1e-11, 'two-stage project(%s -> %s -> %s)' % (ns, mid, ms), rec, key='two-stage')
    # axes in any order: project one axis at a time following perm
    cur = fs
    cur_ns = list(ns)
    with dadi_call('axis-by-axis projection'):
        for ax in perm:
            cur_ns[ax] = ms[ax]
            cur = cur.project(list(cur_ns))
    gens.fs_equal(cur, edata, emask, 1e-11, 'axis-by-axis projection in order %s' % perm, rec, key='axis-order')


@REG.relation('R4-folded', strategy=lambda: proj_case(folded=True), quick=(1500, 8), thorough=(20000, 16))
def r4(case, rec):
    """Folded spectra project as fold(project(unfold)) and stay folded."""
    c = case['fs']
    data, mask = gens.arrays(c)
    fdata, fmask = folding.fold(data, mask)
    fs = gens.make_fs(c)
    ms = case['ms']
    ns = [s - 1 for s in c['shape']]
    rec.case(case, _nontrivial(case), labels=['dim=%d' % len(ns), 'N even' if sum(ns) % 2 == 0 else 'N odd'])
    with dadi_call('project of a folded spectrum'):
        got = fs.project(ms)
    require(bool(got.folded) is True, 'projection of a folded spectrum is not marked folded')
    udata, umask = folding.unfold(fdata, fmask)
    umask.flat[0] = umask.flat[-1] = True   # dadi's unfold() builds its result with the constructor default mask_corners=True
    pdata, pmask = hypergeom.project(udata, umask, ms)
    edata, emask = folding.fold(pdata, pmask)
    gens.fs_equal(got, edata, emask, 1e-11, 'folded project(%s -> %s)' % (ns, ms), rec, key='folded project')
    require(got.pop_ids == c['pop_ids'], 'labels not preserved by folded project')


@st.composite
def neutral_case(draw):
    nd = draw(st.integers(1, 1))
    n = draw(st.integers(2, 200))
    m = draw(st.integers(1, n))
    return dict(n=n, m=m, theta=draw(st.floats(0.1, 1e4)))


@REG.relation('R5-neutral-fixed-point', strategy=neutral_case, quick=(600, 4), thorough=(6000, 8))
def r5(case, rec):
    """theta/i projects to theta/j (interior entries)."""
    n, m = case['n'], case['m']
    rec.case(case, m < n, labels=['n>40' if n > 40 else 'n<=40'])
    x = np.zeros(n + 1)
    x[1:n] = case['theta'] / np.arange(1, n)
    fs = dadi.Spectrum(x)
    with dadi_call('project'):
        got = fs.project([m])
    exp = np.zeros(m + 1)
    exp[1:m] = case['theta'] / np.arange(1, m)
    if m > 1:
        require_close(np.ma.getdata(got)[1:m], exp[1:m], 1e-10, 'projection of the neutral 1/i spectrum', rec)
    require(bool(got.mask[0]) and bool(got.mask[-1]), 'corner masks lost in projection')


@st.composite
def upward_case(draw):
    fs = draw(gens.spectrum_case(min_dim=1, max_dim=4, min_n=1, max_n=5, folded=None))
    ns = [s - 1 for s in fs['shape']]
    ax = draw(st.integers(0, len(ns) - 1))
    ms = [draw(st.integers(1, n)) for n in ns]
    ms[ax] = ns[ax] + draw(st.integers(1, 5))
    wrongdim = draw(st.booleans())
    return dict(fs=fs, ms=ms, wrongdim=wrongdim)


@REG.relation('R6-upward-refused', strategy=upward_case, quick=(400, 2), thorough=(4000, 4))
def r6(case, rec):
    fs = gens.make_fs(case['fs'])
    rec.case(case, True, labels=['folded' if case['fs']['folded'] else 'unfolded'])
    ms = case['ms'] + ([1] if case['wrongdim'] else [])
    try:
        out = fs.project(as_container(ms, sum(ms)))
    except ValueError:
        return
    except Exception as e:
        raise Violation('upward/ill-shaped projection raised %s, not ValueError: %s' % (type(e).__name__, e))
    raise Violation('projection from sizes %s up to %s was accepted' % ([s - 1 for s in case['fs']['shape']], ms))


@st.composite
def cache_case(draw):
    P = draw(st.integers(1, 2))
    sizes = [draw(st.integers(2, 14)) for _ in range(P)]
    proj = [draw(st.integers(1, n)) for n in sizes]
    nconf = draw(st.integers(1, 5))
    confs = []
    for _ in range(nconf):
        confs.append(dict(hits=[draw(st.integers(0, n)) for n in sizes], count=draw(st.integers(1, 40)), polarized=draw(st.booleans())))
    return dict(sizes=sizes, proj=proj, confs=confs, polarized=draw(st.booleans()), again=draw(st.booleans()))


@REG.relation('R7-weights-survive-other-users', strategy=cache_case, quick=(1500, 8), thorough=(20000, 16))
def r7(case, rec):
    """The memoised projection weights are shared with the data-to-spectrum and low-pass code: building spectra from SNP counts
    (any number of populations, counts > 1) must leave every later projection exact."""
    from dadi.LowPass import LowPass
    sizes, proj = case['sizes'], case['proj']
    count_dict = {}
    for c in case['confs']:
        key = (tuple(sizes), tuple(c['hits']), bool(c['polarized']))
        count_dict[key] = count_dict.get(key, 0) + c['count']
    rec.case(case, len(sizes) == 1 and any(c['count'] > 1 for c in case['confs']), ['P=%d' % len(sizes)])

    def expected():
        out = np.zeros([m + 1 for m in proj])
        for (called, hits, pol), cnt in count_dict.items():
            if case['polarized'] and not pol:
                continue
            v = None
            for n, m, h in zip(called, proj, hits):
                w = np.array([float(x) for x in hypergeom.weights(n, m, h)])
                v = w if v is None else np.multiply.outer(v, w)
            out += cnt * v
        return out
    for rep in range(2 if case['again'] else 1):
        with dadi_call('Spectrum._from_count_dict'):
            fs = dadi.Spectrum._from_count_dict(dict(count_dict), list(proj), polarized=case['polarized'], mask_corners=False)
        exp = expected()
        if case['polarized']:
            require_close(np.asarray(np.ma.getdata(fs), float), exp, 1e-10, 'spectrum from SNP counts (call %d) vs exact hypergeometric sum' % (rep + 1),
                          rec, key='from counts', atol=1e-12)
        else:
            ed, em = folding.fold(exp, np.zeros(exp.shape, bool))
            ok = ~em
            ok.flat[0] = False
            require_close(np.asarray(np.ma.getdata(fs), float)[ok], ed[ok], 1e-10, 'folded spectrum from SNP counts (call %d)' % (rep + 1), rec, key='from counts folded', atol=1e-12)
    # every weight vector touched above must still be the exact pmf
    for (called, hits, pol) in count_dict:
        for n, m, h in zip(called, proj, hits):
            got = np.array(Numerics._cached_projection(m, n, h), float)
            e = np.array([float(x) for x in hypergeom.weights(n, m, h)])
            require(np.abs(got - e).max() <= 1e-10, 'projection weights (to=%d, from=%d, hits=%d) are no longer the hypergeometric pmf after building a '
                    'spectrum from SNP counts: %r vs %r' % (m, n, h, got.tolist(), e.tolist()))
    n, m = sizes[0], proj[0]
    with dadi_call('LowPass.projection_matrix'):
        Pm = np.asarray(LowPass.projection_matrix(n - n % 2 if n > 2 else 2, max(2, m - m % 2) if m >= 2 else 2, 0), float) if n >= 2 else None
    if Pm is not None:
        nn, mm = Pm.shape[0] - 1, Pm.shape[1] - 1
        if mm <= nn:
            Pe = np.array([[float(hypergeom.weight(nn, mm, i, j)) for j in range(mm + 1)] for i in range(nn + 1)])
            require_close(Pm, Pe, 0.0, 'LowPass.projection_matrix(F=0) after other users of the weight cache', rec, key='lowpass after', atol=1e-10)
