"""C11 - likelihoods are Poisson/multinomial over jointly unmasked entries, with the optimal theta."""
import logging
import math

import numpy as np
from hypothesis import strategies as st

import dadi
from dadi import Inference
from harness import gens
from harness.core import Registry, Violation, Reject, dadi_call, require, require_close
from harness.refs import folding, hypergeom

logging.getLogger('Inference').setLevel(logging.CRITICAL)
logging.getLogger('Spectrum_mod').setLevel(logging.ERROR)

REG = Registry(
    'C11',
    rule=('model/data spectra of 1-3 dimensions (sample sizes 1-10), model entries positive, data = integers, zeros, or '
          'non-integer (hypergeometric projection of integer data), independent random masks on both with and without masked '
          'corners, folded or unfolded data. Non-trivial = masks differ between model and data, or data folded, or data '
          'non-integer. Distinct by hash of the case.'),
    assumptions=['oracle: explicit loop with math.lgamma over entries unmasked in both spectra; 1-D golden-section maximisation '
                 'over the scale for the multinomial value'])


@st.composite
def ll_case(draw, folded=None):
    d = draw(gens.spectrum_case(min_dim=1, max_dim=3, min_n=1, max_n=10, max_entries=300, masks=True, folded=False,
                                labels=False, values='counts'))
    n = len(d['data'])
    shape = d['shape']
    rs_seed = draw(st.integers(0, 2 ** 31 - 1))
    mmask_p = draw(st.sampled_from([0.0, 0.0, 0.1, 0.4]))
    kind = draw(st.sampled_from(['integer', 'integer', 'projected', 'float']))
    return dict(shape=shape, data=d['data'], dmask=d['mask'], seed=rs_seed, mmask_p=mmask_p, kind=kind,
                folded=draw(st.booleans()) if folded is None else folded,
                model_corners=draw(st.booleans()), scale=draw(st.floats(0.01, 100.0)),
                layout=draw(st.sampled_from(['C', 'C', 'F', 'view'])), layout_model=draw(st.sampled_from(['C', 'C', 'F', 'view'])))


def build(case):
    shape = tuple(case['shape'])
    rs = np.random.RandomState(case['seed'])
    data = np.array(case['data'], float).reshape(shape)
    if case['kind'] in ('integer', 'projected'):
        data = np.floor(data)
    dmask = np.array(case['dmask'], bool).reshape(shape)
    if case['kind'] == 'projected':
        # project integer data from a larger sample: non-integer expected counts
        big = [s - 1 + int(rs.randint(1, 4)) for s in shape]
        bdata = np.floor(rs.uniform(0, 30, size=[b + 1 for b in big]))
        data, _ = hypergeom.project(bdata, np.zeros(bdata.shape, bool), [s - 1 for s in shape])
    model = rs.uniform(0.05, 30.0, size=shape)
    mmask = rs.rand(*shape) < case['mmask_p']
    if case['model_corners']:
        mmask.flat[0] = mmask.flat[-1] = True
    return data, dmask, model, mmask


def poisson_ll(model, data, joint_mask):
    tot = 0.0
    per = np.zeros(model.shape)
    for idx in np.ndindex(model.shape):
        if joint_mask[idx]:
            continue
        m, d = float(model[idx]), float(data[idx])
        if not m > 0:
            raise Reject('model entry not positive (underflow after scaling)')
        v = -m + d * math.log(m) - math.lgamma(d + 1.0)
        per[idx] = v
        tot += v
    return tot, per


def golden_max(f, lo, hi, it=200):
    g = (math.sqrt(5) - 1) / 2
    a, b = lo, hi
    c, d = b - g * (b - a), a + g * (b - a)
    fc, fd = f(c), f(d)
    for _ in range(it):
        if fc > fd:
            b, d, fd = d, c, fc
            c = b - g * (b - a)
            fc = f(c)
        else:
            a, c, fc = c, d, fd
            d = a + g * (b - a)
            fd = f(d)
    x = (a + b) / 2
    return x, f(x)


def _nt(case, dmask, mmask):
    return bool((dmask != mmask).any()) or case['folded'] or case['kind'] != 'integer'


@REG.relation('R1-poisson-and-multinomial', strategy=ll_case, quick=(3000, 8), thorough=(40000, 16))
def r1(case, rec):
    data, dmask, model, mmask = build(case)
    folded = case['folded']
    if folded:
        fd, fdm = folding.fold(data, dmask)
        fdm.flat[0] = True
        dfs = dadi.Spectrum(fd, mask=fdm, mask_corners=False, data_folded=True)
        emodel, emmask = folding.fold(model, mmask)
        emmask.flat[0] = True      # dadi's fold() masks the absent corner (constructor default)
        edata, edmask = fd, fdm
    else:
        dfs = gens.relayout(dadi.Spectrum(data, mask=dmask, mask_corners=False), case.get('layout', 'C'))
        emodel, emmask, edata, edmask = model, mmask, data, dmask
    mfs = gens.relayout(dadi.Spectrum(model, mask=mmask, mask_corners=False), case.get('layout_model', case.get('layout', 'C')))
    joint = emmask | edmask
    rec.case(case, _nt(case, dmask, mmask), ['dim=%d' % model.ndim, case['kind'], 'folded' if folded else 'unfolded',
                                             'masks differ' if (dmask != mmask).any() else 'masks equal'])
    if joint.all() or edata[~joint].sum() <= 0:
        return   # no jointly unmasked entry, or no data there: likelihood / scaling degenerate
    snap = (mfs.data.copy(), mfs.mask.copy(), dfs.data.copy(), dfs.mask.copy())
    with dadi_call('ll/ll_per_bin'):
        got = Inference.ll(mfs, dfs)
        per = Inference.ll_per_bin(mfs, dfs)
    exp, eper = poisson_ll(emodel, edata, joint)
    scale = np.abs(eper[~joint]).sum() + 1.0
    require(not np.ma.is_masked(got), 'll returned a masked value although %d entries are unmasked in both' % (~joint).sum())
    require(abs(float(got) - exp) <= 1e-11 * scale, 'll = %r, Poisson sum over jointly unmasked entries = %r' % (float(got), exp))
    rec.err('ll', abs(float(got) - exp) / scale)
    gens.fs_equal(per, eper, joint, 1e-11, 'll_per_bin', rec, atol=1e-11 * scale)
    require(abs(float(Inference.minus_ll(mfs, dfs)) + exp) <= 1e-11 * scale, 'minus_ll is not -ll')
    # optimal scaling
    with dadi_call('optimal_sfs_scaling'):
        th = float(Inference.optimal_sfs_scaling(mfs, dfs))
    eth = edata[~joint].sum() / emodel[~joint].sum()
    require(abs(th - eth) <= 1e-12 * abs(eth) + 1e-300,
            'optimal_sfs_scaling = %r but sum(data)/sum(model) over entries masked in neither = %r' % (th, eth))
    with dadi_call('optimally_scaled_sfs'):
        sc = Inference.optimally_scaled_sfs(mfs, dfs)
    okm = ~np.ma.getmaskarray(sc)
    require_close(np.ma.getdata(sc)[okm], (eth * (emodel if sc.shape == emodel.shape and folded and bool(getattr(sc, 'folded', False)) else model))[okm],
                  1e-12, 'optimally_scaled_sfs', rec)
    # multinomial likelihood = max over s of ll(s*model)
    if edata[~joint].sum() > 0:
        with dadi_call('ll_multinom'):
            lm = float(Inference.ll_multinom(mfs, dfs))
        f = lambda s: poisson_ll(s * emodel, edata, joint)[0]
        s_best, v_best = golden_max(f, eth / 50.0, eth * 50.0)
        v_at = f(eth)
        require(abs(lm - v_at) <= 1e-10 * scale, 'll_multinom = %r but ll(theta_opt*model) over jointly unmasked entries = %r' % (lm, v_at))
        require(lm >= v_best - 1e-8 * scale, 'll_multinom = %r is below the maximum over rescalings %r (at s=%r)' % (lm, v_best, s_best))
        rec.err('ll_multinom', abs(lm - v_at) / scale)
        # invariant to rescaling the model
        with dadi_call('ll_multinom(scaled model)'):
            lm2 = float(Inference.ll_multinom(mfs * case['scale'], dfs))
        require(abs(lm - lm2) <= 1e-10 * scale, 'll_multinom changes under model rescaling by %g: %r vs %r' % (case['scale'], lm, lm2))
        require(abs(float(Inference.minus_ll_multinom(mfs, dfs)) + lm) <= 1e-11 * scale, 'minus_ll_multinom is not -ll_multinom')
        with dadi_call('ll_multinom_per_bin'):
            pb = Inference.ll_multinom_per_bin(mfs, dfs)
        _, epb = poisson_ll(eth * emodel, edata, joint)
        gens.fs_equal(pb, epb, joint, 1e-10, 'll_multinom_per_bin', rec, atol=1e-11 * scale)
    require(np.array_equal(snap[0], mfs.data) and np.array_equal(snap[1], mfs.mask) and np.array_equal(snap[2], dfs.data)
            and np.array_equal(snap[3], dfs.mask), 'likelihood functions modified their arguments')
    # The user then edits the SAME data spectrum in place (the usual idiom: data.mask[1] = True, or overwriting a count) and
    # evaluates again: the likelihood must be that of the spectrum as it now is.
    free = np.argwhere(~joint)
    if len(free) >= 2:
        rs = np.random.RandomState(case.get('seed', 0) % (2 ** 31) if isinstance(case.get('seed', 0), int) else 0)
        i1, i2 = (tuple(int(v) for v in free[j]) for j in rs.choice(len(free), 2, replace=False))
        dfs.mask[i1] = True
        dfs.data[i2] = float(dfs.data[i2]) + 3.0
        edata2 = edata.copy()
        edata2[i2] += 3.0
        joint2 = joint.copy()
        joint2[i1] = True
        with dadi_call('ll after editing the data spectrum in place'):
            got2 = float(Inference.ll(mfs, dfs))
            per2 = Inference.ll_per_bin(mfs, dfs)
        exp2, eper2 = poisson_ll(emodel, edata2, joint2)
        scale2 = np.abs(eper2[~joint2]).sum() + 1.0
        require(abs(got2 - exp2) <= 1e-11 * scale2, 'after masking entry %s and adding 3 to entry %s of the data spectrum in place, ll = %r but the Poisson sum over '
                'the entries now jointly unmasked is %r' % (i1, i2, got2, exp2))
        gens.fs_equal(per2, eper2, joint2, 1e-11, 'll_per_bin after in-place edits', rec, atol=1e-11 * scale2)


@st.composite
def best_case(draw):
    c = draw(ll_case(folded=False))
    return dict(c, comp_seed=draw(st.integers(0, 2 ** 31 - 1)), const=draw(st.floats(0.01, 50.0)))


@REG.relation('R2-data-is-best-model', strategy=best_case, quick=(1500, 8), thorough=(20000, 16))
def r2(case, rec):
    """model == const*data maximises the multinomial likelihood over all models."""
    data, dmask, model, mmask = build(case)
    data = data + 0.0
    dfs = dadi.Spectrum(data, mask=dmask, mask_corners=False)
    ok = ~dmask
    if not ok.any() or data[ok].sum() <= 1e-200:
        return      # no data (or a total in the subnormal range, where the optimal scaling underflows): degenerate
    rec.case(case, True, ['dim=%d' % data.ndim, case['kind'], 'zeros' if (data[ok] == 0).any() else 'nozeros'])
    best_model = dadi.Spectrum(case['const'] * data, mask=dmask, mask_corners=False)
    with dadi_call('ll_multinom(data*const, data)'):
        lbest = float(Inference.ll_multinom(best_model, dfs))
    # oracle value: entries with data 0 contribute 0
    s = 0.0
    for v in data[ok]:
        if v > 0:
            s += -v + v * math.log(v) - math.lgamma(v + 1.0)
    scale = abs(s) + 1.0
    require(abs(lbest - s) <= 1e-10 * scale, 'll_multinom(const*data, data) = %r, saturated value = %r' % (lbest, s))
    rs = np.random.RandomState(case['comp_seed'])
    for k in range(4):
        if k < 2:
            comp = rs.uniform(0.05, 30.0, size=data.shape)
        else:
            comp = (data + 1e-3) * np.exp(rs.normal(0, 0.05 * (k - 1), size=data.shape))
        cfs = dadi.Spectrum(comp, mask=dmask, mask_corners=False)
        with dadi_call('ll_multinom(competitor)'):
            lc = float(Inference.ll_multinom(cfs, dfs))
        require(lc <= lbest + 1e-9 * scale, 'a competitor model has higher multinomial likelihood (%r) than const*data (%r)' % (lc, lbest))


@st.composite
def resid_case(draw):
    c = draw(ll_case())
    return dict(c, cut=draw(st.sampled_from([None, 0, 1e-2, 1.0, 5.0])))


@REG.relation('R3-residuals', strategy=resid_case, quick=(2000, 8), thorough=(20000, 16))
def r3(case, rec):
    """linear residual = (model-data)/sqrt(model); Anscombe residual has the documented sign (positive when the model is high)
    and transformation; `mask=` masks entries where both model and data are <= the level (Anscombe: also data == 0)."""
    data, dmask, model, mmask = build(case)
    folded = case['folded']
    if folded:
        fd, fdm = folding.fold(data, dmask)
        fdm.flat[0] = True
        dfs = dadi.Spectrum(fd, mask=fdm, mask_corners=False, data_folded=True)
        emodel, emmask = folding.fold(model, mmask)
        emmask.flat[0] = True
        edata, edmask = fd, fdm
    else:
        dfs = gens.relayout(dadi.Spectrum(data, mask=dmask, mask_corners=False), case.get('layout', 'C'))
        emodel, emmask, edata, edmask = model, mmask, data, dmask
    mfs = gens.relayout(dadi.Spectrum(model, mask=mmask, mask_corners=False), case.get('layout_model', case.get('layout', 'C')))
    joint = emmask | edmask
    cut = case['cut']
    rec.case(case, _nt(case, dmask, mmask), ['cut=%s' % cut, 'folded' if folded else 'unfolded'])
    with dadi_call('linear_Poisson_residual'):
        lin = Inference.linear_Poisson_residual(mfs, dfs, mask=cut)
    with np.errstate(all='ignore'):
        elin = (emodel - edata) / np.sqrt(emodel)
    em = joint.copy()
    if cut is not None:
        em |= (emodel <= cut) & (edata <= cut)
    # entries folded out have model 0: sqrt(0) division -> masked by numpy.ma; they are in joint already
    gens.fs_equal(lin, np.where(em, 0, elin), em, 1e-12, 'linear_Poisson_residual', rec)
    with dadi_call('Anscombe_Poisson_residual'):
        ans = Inference.Anscombe_Poisson_residual(mfs, dfs, mask=cut)
    with np.errstate(all='ignore'):
        dt = edata ** (2. / 3) - edata ** (-1. / 3) / 9
        mt = emodel ** (2. / 3) - emodel ** (-1. / 3) / 9
        eans = -1.5 * (dt - mt) / emodel ** (1. / 6)
    em2 = joint.copy()
    if cut is not None:
        em2 |= ((emodel <= cut) & (edata <= cut)) | (edata == 0)
    got_mask = np.ma.getmaskarray(ans)
    # where data == 0 the transformation is undefined (0**(-1/3)); numpy.ma masks those regardless of `mask=`
    und = (edata == 0) & ~joint
    cmp_ok = ~em2 & ~und
    require(not got_mask[cmp_ok].any(), 'Anscombe residual masked at an entry with model and data above the level')
    require(got_mask[em2].all(), 'Anscombe residual not masked where the documented rule masks it')
    if cmp_ok.any():
        require_close(np.ma.getdata(ans)[cmp_ok], eans[cmp_ok], 1e-11, 'Anscombe_Poisson_residual', rec)
        # sign convention: model high => positive
        hi = cmp_ok & (emodel > edata * 1.5 + 1) & (edata >= 1)
        require((np.ma.getdata(ans)[hi] > 0).all(), 'Anscombe residual not positive where the model exceeds the data')
