"""C10 - population bookkeeping on spectra equals explicit index arithmetic and keeps labels."""
import logging

import numpy as np
from hypothesis import strategies as st

import dadi
from dadi import Misc
from harness import gens
from harness.core import as_container, Registry, Violation, dadi_call, require, require_close
from harness.refs import folding, hypergeom, popindex

logging.getLogger('Spectrum_mod').setLevel(logging.ERROR)

REG = Registry(
    'C10',
    rule=('random spectra of 2-6 dimensions with unequal sample sizes 1-6, corners masked or not (interior masks only for '
          'combine/reorder, whose mask rule is defined), with and without labels, folded and unfolded; every subset / permutation / '
          'merge set drawn uniformly. Non-trivial = at least two distinct sample sizes or dimension>=3. Distinct by hash of the case.'),
    assumptions=['oracle: explicit numpy.ndindex re-indexing in harness/refs/popindex.py',
                 'marginalisation is compared on non-corner entries: dadi sums masked arrays, so masked corner entries are skipped'])

LBL = ['A', 'B pop', 'C', 'D', 'E_5', 'F']


@st.composite
def fs_case(draw, min_dim=2, max_dim=6, interior_masks=False, folded=False, max_entries=800):
    c = draw(gens.spectrum_case(min_dim=min_dim, max_dim=max_dim, min_n=1, max_n=6, max_entries=max_entries,
                                masks=interior_masks, folded=folded, labels=False))
    nd = len(c['shape'])
    if draw(st.booleans()):
        c['pop_ids'] = LBL[:nd]
    return c


def _nt(c):
    return len(set(c['shape'])) >= 2 or len(c['shape']) >= 3


def _lab(c):
    return ['dim=%d' % len(c['shape']), 'labelled' if c['pop_ids'] else 'unlabelled', 'folded' if c['folded'] else 'unfolded']


def noncorner(shape):
    m = np.ones(shape, bool)
    m.flat[0] = m.flat[-1] = False
    return m


@st.composite
def marg_case(draw, folded=False):
    c = draw(fs_case(folded=folded))
    nd = len(c['shape'])
    over = draw(st.lists(st.integers(0, nd - 1), min_size=1, max_size=nd - 1, unique=True))
    ns = [s - 1 for s in c['shape']]
    ms = [draw(st.integers(1, n)) for n in ns]
    return dict(fs=c, over=over, ms=ms, via=draw(st.sampled_from(['marginalize', 'filter_pops'])))


@REG.relation('R1-marginalize-filter', strategy=marg_case, quick=(2500, 8), thorough=(30000, 16))
def r1(case, rec):
    """marginalize / filter_pops = explicit sum over the dropped populations; labels of the kept axes; commutes with project."""
    c = case['fs']
    data, mask = gens.arrays(c)
    mask.flat[0] = mask.flat[-1] = True
    data.flat[0] = data.flat[-1] = 0.0
    fs = gens.relayout(dadi.Spectrum(data, mask=mask, mask_corners=False, pop_ids=c['pop_ids']), c.get('layout', 'C'))
    over = sorted(case['over'])
    keep = [a for a in range(data.ndim) if a not in over]
    rec.case(case, _nt(c), _lab(c) + [case['via'], 'drop=%d' % len(over)])
    with dadi_call(case['via']):
        if case['via'] == 'marginalize':
            out = fs.marginalize(as_container(case['over'], len(case['over']) + sum(case['over'])))
        else:
            out = fs.filter_pops([a + 1 for a in keep])
    exp = popindex.marginalize(data, over)
    require(out.shape == exp.shape, 'shape %s != %s' % (out.shape, exp.shape))
    nc = noncorner(exp.shape)
    require(not np.ma.getmaskarray(out)[nc].any(), 'interior entries masked after marginalising unmasked data')
    require_close(np.ma.getdata(out)[nc], exp[nc], 1e-12, 'marginal spectrum', rec, atol=1e-300)
    require_close(np.ma.getdata(out)[nc].sum(), exp[nc].sum(), 1e-12, 'total', rec, atol=1e-300 + 1e-13 * float(np.abs(exp).sum()))
    elab = [c['pop_ids'][a] for a in keep] if c['pop_ids'] else None
    require(out.pop_ids == elab, 'labels after %s over %s: %r, expected %r' % (case['via'], over, out.pop_ids, elab))
    require(fs.pop_ids == c['pop_ids'] and np.array_equal(fs.data, data), '%s modified its input' % case['via'])
    # commutes with projection (unmasked data): project then marginalise == marginalise then project
    ms = case['ms']
    with dadi_call('project/marginalize'):
        a = fs.project(ms).marginalize(list(over))
        b = fs.marginalize(list(over)).project([ms[k] for k in keep])
    nc2 = noncorner(a.shape)
    # the projected spectrum's corner receives mass from masked corner only -> compare entries unmasked in both
    ok = nc2 & ~np.ma.getmaskarray(a) & ~np.ma.getmaskarray(b)
    require_close(np.ma.getdata(a)[ok], np.ma.getdata(b)[ok], 1e-11, 'project∘marginalize vs marginalize∘project', rec, atol=1e-300)
    pd, pm = hypergeom.project(exp, ~noncorner(exp.shape), [ms[k] for k in keep])
    require_close(np.ma.getdata(b)[~pm], pd[~pm], 1e-11, 'marginalize then project vs oracle', rec, atol=1e-300)


@REG.relation('R2-marginalize-folded', strategy=lambda: marg_case(folded=False), quick=(1500, 8), thorough=(20000, 16))
def r2(case, rec):
    """Marginalising commutes with folding: fold(x).marginalize(S) == fold(x.marginalize(S)) and stays folded."""
    c = case['fs']
    data, mask = gens.arrays(c)
    mask.flat[0] = mask.flat[-1] = True
    data.flat[0] = data.flat[-1] = 0.0
    fs = gens.relayout(dadi.Spectrum(data, mask=mask, mask_corners=False, pop_ids=c['pop_ids']), c.get('layout', 'C'))
    over = sorted(case['over'])
    rec.case(case, _nt(c), _lab(c))
    with dadi_call('fold/marginalize'):
        a = fs.fold().marginalize(list(over))
        b = fs.marginalize(list(over)).fold()
    require(bool(a.folded), 'marginal of a folded spectrum not flagged folded')
    exp = popindex.marginalize(data, over)
    ed, em = folding.fold(exp, ~noncorner(exp.shape))
    ok = ~em
    require(np.array_equal(np.ma.getmaskarray(a), np.ma.getmaskarray(b)), 'masks differ between fold∘marginalize and marginalize∘fold')
    require(np.array_equal(np.ma.getmaskarray(b), em), 'mask of folded marginal differs from oracle')
    require_close(np.ma.getdata(a)[ok], ed[ok], 1e-12, 'fold(x).marginalize vs oracle fold(marginal)', rec, atol=1e-300)
    require_close(np.ma.getdata(b)[ok], ed[ok], 1e-12, 'x.marginalize.fold vs oracle', rec, atol=1e-300)
    keep = [k for k in range(data.ndim) if k not in over]
    elab = [c['pop_ids'][k] for k in keep] if c['pop_ids'] else None
    require(a.pop_ids == elab, 'labels of folded marginal: %r expected %r' % (a.pop_ids, elab))


@st.composite
def reorder_case(draw):
    c = draw(fs_case(interior_masks=True, folded=None))
    nd = len(c['shape'])
    perm = list(draw(st.permutations(range(nd))))
    ns = [s - 1 for s in c['shape']]
    ms = [draw(st.integers(1, n)) for n in ns]
    bad = draw(st.sampled_from(['dup', 'short', 'zero', 'long']))
    return dict(fs=c, perm=perm, ms=ms, bad=bad)


@REG.relation('R3-reorder', strategy=reorder_case, quick=(2500, 8), thorough=(30000, 16))
def r3(case, rec):
    """reorder_pops = axis permutation of data, mask and labels; commutes with project and fold; non-permutations refused."""
    c = case['fs']
    fs = gens.make_fs(c)
    data, mask = np.ma.getdata(fs).copy(), np.ma.getmaskarray(fs).copy()
    perm = case['perm']
    rec.case(case, _nt(c) and perm != sorted(perm), _lab(c))
    with dadi_call('reorder_pops'):
        out = fs.reorder_pops(as_container([p + 1 for p in perm], sum(perm[:2]) + len(perm)))
    gens.fs_equal(out, popindex.reorder(data, perm), popindex.reorder(mask.astype(float), perm).astype(bool), 0.0, 'reordered spectrum', rec)
    elab = [c['pop_ids'][p] for p in perm] if c['pop_ids'] else None
    require(out.pop_ids == elab, 'labels after reorder %s: %r expected %r' % (perm, out.pop_ids, elab))
    require(bool(out.folded) == bool(c['folded']), 'reorder changed folding status')
    require(fs.pop_ids == c['pop_ids'] and np.array_equal(fs.data, data) and np.array_equal(fs.mask, mask), 'reorder modified its input')
    ms = case['ms']
    with dadi_call('reorder/project'):
        a = fs.project(ms).reorder_pops([p + 1 for p in perm])
        b = out.project([ms[p] for p in perm])
    gens.fs_equal(a, np.ma.getdata(b), np.ma.getmaskarray(b), 1e-12, 'reorder∘project vs project∘reorder', rec)
    if not c['folded']:
        with dadi_call('reorder/fold'):
            a = fs.fold().reorder_pops([p + 1 for p in perm])
            b = out.fold()
        gens.fs_equal(a, np.ma.getdata(b), np.ma.getmaskarray(b), 1e-13, 'reorder∘fold vs fold∘reorder', rec)
    nd = len(perm)
    bad = {'dup': [1] * nd, 'short': list(range(1, nd)), 'zero': list(range(0, nd)), 'long': list(range(1, nd + 2))}[case['bad']]
    if sorted(bad) != list(range(1, nd + 1)):
        try:
            fs.reorder_pops(bad)
        except ValueError:
            pass
        except Exception as e:
            raise Violation('reorder_pops(%r) raised %s, not ValueError' % (bad, type(e).__name__))
        else:
            raise Violation('reorder_pops(%r) on %d populations was accepted' % (bad, nd))


@st.composite
def combine_case(draw):
    c = draw(fs_case(interior_masks=True, folded=False, max_entries=200))
    nd = len(c['shape'])
    k = draw(st.integers(2, nd))
    pops = list(draw(st.permutations(range(nd))))[:k]
    ns = [s - 1 for s in c['shape']]
    ms = [draw(st.integers(1, n)) for n in ns]
    return dict(fs=c, pops=pops, ms=ms)


@REG.relation('R4-combine', strategy=combine_case, quick=(1200, 12), thorough=(25000, 16))
def r4(case, rec):
    """combine_pops adds the allele counts of the merged populations into the slot of the smallest index, '+'-joins their labels,
    conserves the total, masks an entry iff a contributor is masked; commutes with fold and with projecting uninvolved axes."""
    c = case['fs']
    fs = gens.make_fs(c)
    data, mask = gens.arrays(c)
    pops = case['pops']
    nd = data.ndim
    rec.case(case, _nt(c), _lab(c) + ['merge=%d' % len(pops), 'sorted' if pops == sorted(pops) else 'unsorted'])
    labels_before = list(c['pop_ids']) if c['pop_ids'] else None
    with dadi_call('combine_pops'):
        out = fs.combine_pops([p + 1 for p in pops])
    ed, em = popindex.combine(data, mask, pops)
    # the new Spectrum is created with masked corners
    em2 = em.copy()
    em2.flat[0] = em2.flat[-1] = True
    gens.fs_equal(out, ed, em2, 1e-12, 'combined spectrum', rec)
    if not mask.any():
        # the result is built with masked corners (they receive only the two corner entries of the input)
        require_close(np.ma.getdata(out)[~em2].sum(), data.sum() - data.flat[0] - data.flat[-1], 1e-12, 'total after combining', rec,
                      atol=1e-300 + 1e-13 * float(np.abs(data).sum()))     # the expected value is itself a difference of sums
    sp = sorted(pops)
    if labels_before:
        keep = [a for a in range(nd) if a not in sp[1:]]
        elab = ['+'.join(labels_before[p] for p in sp) if a == sp[0] else labels_before[a] for a in keep]
        require(out.pop_ids == elab, 'labels after combining %s: %r expected %r' % (pops, out.pop_ids, elab))
    else:
        require(out.pop_ids is None, 'labels appeared from nowhere: %r' % (out.pop_ids,))
    require(fs.pop_ids == labels_before, 'combine_pops changed the labels of its input: %r' % (fs.pop_ids,))
    require(np.array_equal(fs.data, data) and np.array_equal(fs.mask, mask), 'combine_pops modified its input')
    # pairwise form
    if len(pops) == 2:
        with dadi_call('combine_two_pops'):
            o2 = fs.combine_two_pops([p + 1 for p in pops])
        gens.fs_equal(o2, ed, em2, 1e-12, 'combine_two_pops', rec)
    # commute with fold on unmasked data: same values on the minor-allele half
    if not mask.any():
        with dadi_call('fold/combine'):
            a = fs.fold().combine_pops([p + 1 for p in pops])
            b = out.fold()
        okb = ~np.ma.getmaskarray(b)
        require_close(np.ma.getdata(a)[okb], np.ma.getdata(b)[okb], 1e-12, 'combine∘fold vs fold∘combine', rec, atol=1e-300)
    # commute with projection of populations not involved in the merge
    others = [a for a in range(nd) if a not in sp]
    if others and not mask.any():
        ms = [case['ms'][a] if a in others else data.shape[a] - 1 for a in range(nd)]
        keep = [a for a in range(nd) if a not in sp[1:]]
        ms_after = [out.shape[i] - 1 if a == sp[0] else case['ms'][a] for i, a in enumerate(keep)]
        with dadi_call('project/combine'):
            a_ = fs.project(ms).combine_pops([p + 1 for p in pops])
            b_ = out.project(ms_after)
        ok = ~np.ma.getmaskarray(a_) & ~np.ma.getmaskarray(b_)
        require_close(np.ma.getdata(a_)[ok], np.ma.getdata(b_)[ok], 1e-11, 'combine∘project(other axes) vs project∘combine', rec, atol=1e-300)


@st.composite
def misc_combine_case(draw):
    c = draw(fs_case(min_dim=2, max_dim=3, folded=False, max_entries=300))
    nd = len(c['shape'])
    idx = [0, 1] if nd == 2 else draw(st.sampled_from([[0, 1], [0, 2], [1, 2]]))
    return dict(fs=c, idx=idx)


@REG.relation('R5-misc-combine', strategy=misc_combine_case, quick=(800, 4), thorough=(8000, 8))
def r5(case, rec):
    """Misc.combine_pops (2-D/3-D helper: merged population first) agrees with the oracle and with Spectrum.combine_pops."""
    c = case['fs']
    data, mask = gens.arrays(c)
    fs = gens.relayout(dadi.Spectrum(data, mask_corners=True, pop_ids=c['pop_ids']), c.get('layout', 'C'))
    idx = case['idx']
    rec.case(case, _nt(c), ['dim=%d' % data.ndim, 'idx=%s' % idx])
    with dadi_call('Misc.combine_pops'):
        out = Misc.combine_pops(fs, list(idx))
    ed, em = popindex.combine(data, np.zeros(data.shape, bool), idx)
    if data.ndim == 3:
        # merged axis first, remaining population second
        pos = idx[0]
        ed = np.moveaxis(ed, pos, 0)
    nc = noncorner(ed.shape)
    require(out.shape == ed.shape, 'Misc.combine_pops shape %s != %s' % (out.shape, ed.shape))
    require_close(np.ma.getdata(out)[nc], ed[nc], 1e-12, 'Misc.combine_pops', rec, atol=1e-300)
    with dadi_call('Spectrum.combine_pops'):
        o2 = fs.combine_pops([i + 1 for i in idx])
    o2d = np.ma.getdata(o2)
    if data.ndim == 3:
        o2d = np.moveaxis(o2d, idx[0], 0)
    require_close(np.ma.getdata(out)[nc], o2d[nc], 1e-12, 'Misc.combine_pops vs Spectrum.combine_pops', rec, atol=1e-300)


@st.composite
def scramble_case(draw):
    c = draw(fs_case(folded=None, max_entries=400))
    return dict(fs=c, mask_corners=draw(st.booleans()))


@REG.relation('R6-scramble', strategy=scramble_case, quick=(1500, 8), thorough=(20000, 16))
def r6(case, rec):
    """scramble_pop_ids pools all chromosomes and re-deals them with the multivariate hypergeometric law; total conserved;
    labels stay on their axes; commutes with folding."""
    c = case['fs']
    data, mask = gens.arrays(c)
    data.flat[0] = data.flat[-1] = 0.0
    fs = gens.relayout(dadi.Spectrum(data, mask_corners=True, pop_ids=c['pop_ids']), c.get('layout', 'C'))
    rec.case(case, _nt(c), _lab(c))
    if c['folded']:
        src = fs.fold()
    else:
        src = fs
    with dadi_call('scramble_pop_ids'):
        out = src.scramble_pop_ids(mask_corners=case['mask_corners'])
    if c['folded']:
        sym = (data + folding.mirror(data)) / 2.0
        exp = popindex.scramble(sym)
        ed, em = folding.fold(exp, ~noncorner(exp.shape))
        require(bool(out.folded), 'scramble of a folded spectrum not flagged folded')
        ok = ~em
        require_close(np.ma.getdata(out)[ok], ed[ok], 1e-11, 'scramble of folded spectrum', rec, atol=1e-300)
    else:
        exp = popindex.scramble(data)
        nc = noncorner(exp.shape)
        require(not np.ma.getmaskarray(out)[nc].any(), 'interior entries masked after scrambling')
        require_close(np.ma.getdata(out)[nc], exp[nc], 1e-11, 'scrambled spectrum', rec, atol=1e-300)
        require_close(np.ma.getdata(out)[nc].sum(), data.sum(), 1e-11, 'total after scrambling', rec, atol=1e-300 + 1e-13 * float(np.abs(data).sum()))
        with dadi_call('fold/scramble'):
            a = fs.fold().scramble_pop_ids()
            b = fs.scramble_pop_ids().fold()
        ok = ~np.ma.getmaskarray(b)
        require_close(np.ma.getdata(a)[ok], np.ma.getdata(b)[ok], 1e-11, 'scramble∘fold vs fold∘scramble', rec, atol=1e-300)
    require(out.pop_ids == c['pop_ids'], 'labels after scrambling: %r expected %r' % (out.pop_ids, c['pop_ids']), finding='scramble-labels')
