"""C03 - integration is linear in (density, theta0) and independent of the reference size."""
import math

import numpy as np
from hypothesis import strategies as st

import dadi
from dadi import Integration
from harness import grids as G
from harness import drivers as D
from harness.core import Registry, Violation, Reject, dadi_call, require, require_close

REG = Registry(
    'C03',
    rule=('cases = (dimension 1-5, shared grid from {uniform, exponential, random}, densities, nu in [1e-2,1e2], migration rates 0 or '
          '[0,20] (0 for frozen populations), gamma in [-40,40], h in [0,1], theta0, frozen/nomut flags, parameters passed as '
          'constants / constant functions / genuinely time-varying functions, 2-8 time steps, coefficients (a,b) signed with '
          'a*theta1+b*theta2 >= 0, rescaling factor c log-uniform in [0.05,20]). Non-trivial = (c outside [0.8,1.25] or both '
          'coefficients non-zero) and (dimension>=2 or selection present) and >= 3 time steps. Distinct by hash of the case.'),
    assumptions=['exact identities of the scheme, checked to 1e-9 relative (measured agreement ~1e-13)',
                 'the number of time steps may differ by one vanishing final step between the two parameterisations; the result is '
                 'continuous in that step, so the tolerance absorbs it'])

EPS = np.finfo(float).eps


def rate():
    return st.one_of(st.just(0.0), st.floats(0.0, 20.0), st.floats(0.0, 1.0))


@st.composite
def model_case(draw, dims=(1, 2, 3, 4, 5)):
    nd = draw(st.sampled_from(list(dims)))
    maxL = {1: 30, 2: 12, 3: 8, 4: 6, 5: 5}[nd]
    L = draw(st.integers(4, maxL))
    spec = draw(G.grid_spec(min_pts=L, max_pts=L, kinds=('uniform', 'exponential', 'random')))
    frozen = [draw(st.sampled_from([False, False, False, True])) for _ in range(nd)]
    if all(frozen):
        frozen[draw(st.integers(0, nd - 1))] = False
    regime = draw(st.sampled_from(['mixed', 'mixed', 'quiet']))
    if regime == 'mixed':
        nus = [draw(G.loguniform(1e-2, 1e2)) for _ in range(nd)]
        ms = [[0.0 if (i == j or frozen[i] or frozen[j]) else draw(rate()) for j in range(nd)] for i in range(nd)]
        gammas = [draw(st.one_of(st.just(0.0), st.floats(-40.0, 40.0))) for _ in range(nd)]
    else:
        # every term of the time-step rule small, then at most one of them (a chosen population's drift, migration or
        # selection) made the one that sets the step - so that each term of each population binds in some cases
        nus = [draw(G.loguniform(2.0, 1e2)) for _ in range(nd)]
        ms = [[0.0 if (i == j or frozen[i] or frozen[j]) else draw(st.sampled_from([0.0, 0.0, 0.01, 0.03])) for j in range(nd)] for i in range(nd)]
        gammas = [draw(st.sampled_from([0.0, 0.0, 0.1, -0.2])) for _ in range(nd)]
        b = draw(st.integers(0, nd - 1))
        term = draw(st.sampled_from(['none', 'drift', 'mig', 'sel']))
        regime = 'quiet-%s' % term
        if term == 'drift':
            nus[b] = draw(G.loguniform(1e-2, 0.5))
        elif term == 'sel':
            gammas[b] = draw(st.floats(2.0, 40.0)) * draw(st.sampled_from([-1, 1]))
        elif term == 'mig' and nd > 1 and not frozen[b]:
            others = [j for j in range(nd) if j != b and not frozen[j]]
            if others:
                ms[b][draw(st.sampled_from(others))] = draw(st.floats(0.5, 20.0))
    hs = [draw(st.one_of(st.just(0.5), st.floats(0.0, 1.0))) for _ in range(nd)]
    mode = draw(st.sampled_from(['const', 'func-const', 'varying']))
    vary = dict(r=[draw(st.floats(-1.5, 1.5)) for _ in range(nd)], sm=draw(st.floats(-0.5, 1.0)),
                sg=draw(st.floats(-0.5, 1.0)), st=draw(st.floats(-0.5, 1.0)))
    return dict(nd=nd, L=L, grid=spec, phi_seed=draw(st.integers(0, 2 ** 31 - 1)), phi_kind=draw(st.sampled_from(G.PHI_KINDS)),
                nus=nus, ms=ms, gammas=gammas, hs=hs, theta0=draw(st.floats(0.0, 10.0)), frozen=frozen,
                nomut=[draw(st.booleans()), draw(st.booleans())] if nd == 2 else None,
                mode=mode, vary=vary, regime=regime, steps=draw(st.floats(1.2, 8.0)), beta=draw(G.loguniform(0.2, 5.0)) if nd == 1 else 1.0,
                initial_t=draw(st.sampled_from([0.0, 0.0, 0.3])))


def make_kwargs(case, T0, T, c=1.0, theta_scale=1.0):
    """Driver kwargs for the model re-expressed relative to a reference size c times larger:
    sizes*c, times*c, rates/c, gamma/c, theta0/c (theta_scale multiplies theta0 in addition)."""
    nd, mode, v = case['nd'], case['mode'], case['vary']
    span = max(T - T0, 1e-300)

    def frac(t):          # fraction of the epoch elapsed, in the unscaled clock (dadi also probes functions at t=0)
        return min(2.0, max(-1.0, (t / c - T0) / span))

    nus, ms, gammas, hs = case['nus'], case['ms'], case['gammas'], case['hs']
    theta0 = case['theta0'] * theta_scale
    if mode == 'const':
        kw = D.driver_kwargs(nd, [n * c for n in nus], [[m / c for m in row] for row in ms], [g / c for g in gammas], hs,
                             theta0 / c, frozen=case['frozen'], nomut=case['nomut'])
    elif mode == 'func-const':
        # zero rates stay literal zeros: the frozen-population check compares rates with 0
        kw = D.driver_kwargs(nd, [n * c for n in nus], [[m / c for m in row] for row in ms], [g / c for g in gammas], hs,
                             theta0 / c, frozen=case['frozen'], nomut=case['nomut'], wrap=lambda v: v if v == 0 else D.as_fn(v))
        for k in list(kw):
            if k.startswith('nu') or k.startswith('h') or k == 'theta0':
                pass
    else:
        kw = {}
        if nd == 1:
            kw['nu'] = lambda t, n=nus[0], r=v['r'][0]: c * n * math.exp(r * frac(t))
            kw['gamma'] = lambda t, g=gammas[0]: g / c * (1 + v['sg'] * frac(t))
            kw['h'] = hs[0]
            kw['theta0'] = lambda t: theta0 / c * (1 + v['st'] * frac(t))
            if case['frozen'][0]:
                kw['frozen'] = True
        else:
            for i in range(nd):
                kw['nu%d' % (i + 1)] = lambda t, n=nus[i], r=v['r'][i]: c * n * math.exp(r * frac(t))
                kw['gamma%d' % (i + 1)] = lambda t, g=gammas[i]: g / c * (1 + v['sg'] * frac(t))
                kw['h%d' % (i + 1)] = hs[i]
                kw['frozen%d' % (i + 1)] = bool(case['frozen'][i])
                for j in range(nd):
                    if i != j:
                        if ms[i][j] == 0:
                            kw['m%d%d' % (i + 1, j + 1)] = 0
                        else:
                            kw['m%d%d' % (i + 1, j + 1)] = lambda t, m=ms[i][j]: m / c * (1 + v['sm'] * frac(t))
            if case['nomut'] is not None:
                kw['nomut1'], kw['nomut2'] = bool(case['nomut'][0]), bool(case['nomut'][1])
            kw['theta0'] = lambda t: theta0 / c * (1 + v['st'] * frac(t))
    if nd == 1:
        kw['beta'] = case['beta']
    return kw


def times(case):
    T0 = case['initial_t']
    dt = Integration.timescale_factor / D.max_rate(case['nus'], case['ms'], case['gammas'])
    return T0, T0 + case['steps'] * dt


def run(case, phi, xx, T0, T, c=1.0, theta_scale=1.0):
    kw = make_kwargs(case, T0, T, c, theta_scale)
    f = D.DRIVERS[case['nd']]
    with dadi_call(f.__name__, driver=f.__name__):
        return np.asarray(f(phi.copy(), xx, T * c, initial_t=T0 * c, **kw))


def labels(case):
    return [D.DRIVERS[case['nd']].__name__, case['mode'], case.get('regime', 'mixed'), 'frozen' if any(case['frozen']) else 'nofrozen',
            'nomut' if case['nomut'] and any(case['nomut']) else 'mut']


@st.composite
def lin_case(draw):
    c = draw(model_case())
    th1, th2 = draw(st.floats(0.0, 5.0)), draw(st.floats(0.0, 5.0))
    a = draw(st.one_of(st.floats(-3.0, 3.0), st.just(0.0)))
    b = draw(st.floats(-3.0, 3.0))
    return dict(model=c, th1=th1, th2=th2, a=a, b=b, phi2_seed=draw(st.integers(0, 2 ** 31 - 1)),
                phi2_kind=draw(st.sampled_from(G.PHI_KINDS + ['zeros'])))


@REG.relation('R1-linearity', strategy=lin_case, quick=(1600, 16), thorough=(30000, 16))
def r1(case, rec):
    """I(a phi1 + b phi2 ; a th1 + b th2) = a I(phi1; th1) + b I(phi2; th2)."""
    m = case['model']
    a, b, th1, th2 = case['a'], case['b'], case['th1'], case['th2']
    if a * th1 + b * th2 < 0:
        # make the combined mutation rate admissible (the code rejects theta0 < 0)
        a, b = abs(a), abs(b)
    nd, L = m['nd'], m['L']
    xx = G.make_grid(m['grid'])
    phi1 = G.make_phi((L,) * nd, m['phi_seed'], m['phi_kind'])
    phi2 = G.make_phi((L,) * nd, case['phi2_seed'], case['phi2_kind'])
    T0, T = times(m)
    nt = (a != 0 and b != 0) and (nd >= 2 or m['gammas'][0] != 0) and m['steps'] >= 3
    rec.case(case, nt, labels(m))
    base = dict(m, theta0=1.0)
    r1_ = run(base, phi1, xx, T0, T, theta_scale=th1)
    r2_ = run(base, phi2, xx, T0, T, theta_scale=th2)
    rc = run(base, a * phi1 + b * phi2, xx, T0, T, theta_scale=a * th1 + b * th2)
    exp = a * r1_ + b * r2_
    scale = abs(a) * np.abs(r1_).max() + abs(b) * np.abs(r2_).max()
    require(np.isfinite(rc).all(), 'non-finite result')
    d = np.abs(rc - exp).max()
    rec.err('linearity', d / scale if scale > 0 else d)
    if d > 1e-9 * scale + 1e-300:
        idx = np.unravel_index(int(np.argmax(np.abs(rc - exp))), exp.shape)
        raise Violation('%s is not linear in (phi, theta0): I(a phi1+b phi2; a th1+b th2) differs from a I(phi1;th1)+b I(phi2;th2) by %.3e '
                        'relative at %s (a=%g b=%g th1=%g th2=%g)' % (D.DRIVERS[nd].__name__, d / scale, tuple(int(i) for i in idx), a, b, th1, th2),
                        driver=D.DRIVERS[nd].__name__)
    # output scales with theta0 when phi = 0
    z = run(base, np.zeros((L,) * nd), xx, T0, T, theta_scale=th1)
    z2 = run(base, np.zeros((L,) * nd), xx, T0, T, theta_scale=2.5 * th1)
    require_close(z2, 2.5 * z, 1e-9, 'result from phi=0 scales with theta0', rec, key='theta-scaling', atol=1e-300)
    # ... and is not identically zero: new mutations enter every population that is neither frozen nor mutation-free
    live = [i for i in range(nd) if not m['frozen'][i] and not (m['nomut'] and m['nomut'][i])]
    if th1 > 1e-6 and live and T > T0:
        require(float(np.abs(z).sum()) > 0, '%s started from an empty density with theta0=%g returned an empty density: no mutations entered'
                % (D.DRIVERS[nd].__name__, th1), driver=D.DRIVERS[nd].__name__)


@st.composite
def scale_case(draw):
    c = draw(model_case())
    return dict(model=c, c=draw(G.loguniform(0.05, 20.0)))


@REG.relation('R2-reference-size', strategy=scale_case, quick=(1600, 16), thorough=(30000, 16))
def r2(case, rec):
    """I(phi; cT, c nu, m/c, gamma/c, theta0/c) = I(phi; T, nu, m, gamma, theta0), also for time-varying parameters
    (nu_c(t) = c nu(t/c), ...), frozen / nomut flags and non-zero initial_t."""
    m, c = case['model'], case['c']
    nd, L = m['nd'], m['L']
    xx = G.make_grid(m['grid'])
    phi = G.make_phi((L,) * nd, m['phi_seed'], m['phi_kind'])
    T0, T = times(m)
    nt = (c < 0.8 or c > 1.25) and (nd >= 2 or m['gammas'][0] != 0) and m['steps'] >= 3
    rec.case(case, nt, labels(m) + ['c<1' if c < 1 else 'c>=1'])
    r_ref = run(m, phi, xx, T0, T)
    r_c = run(m, phi, xx, T0, T, c=c)
    require(np.isfinite(r_ref).all() and np.isfinite(r_c).all(), 'non-finite result')
    require_close(r_c, r_ref, 1e-9, '%s re-expressed relative to a reference size %.4g times larger' % (D.DRIVERS[nd].__name__, c),
                  rec, key='rescaling', driver=D.DRIVERS[nd].__name__)


# ------------------------------------------------------------------------------------------------ whole models
from harness import programs as P


@st.composite
def whole_case(draw):
    big = draw(st.integers(0, 5)) == 0
    prog = draw(P.program(max_pops=5 if big else 4))
    return dict(prog=prog, c=draw(G.loguniform(0.05, 20.0)), gamma=draw(st.sampled_from([0.0, 0.0, -3.0, 1.5, -20.0])), h=draw(st.sampled_from([0.5, 0.5, 0.2, 0.9])))


@REG.relation('R3-whole-models', strategy=whole_case, quick=(300, 16), thorough=(6000, 16))
def r3(case, rec):
    """A whole model built from the public API (equilibrium, size changes incl. exponential and linear growth, branches, splits,
    admixture, pulses, removal, migration, selection, frozen populations) re-expressed relative to a reference size c times larger
    gives the same spectrum."""
    prog, c = case['prog'], case['c']
    f = P.features(prog)
    lab = ['pops=%d' % f['max_pops']] + [k for k in ('true_split', 'mig', 'pulse', 'growth', 'admix', 'remove') if f[k]] + (['frozen'] if f['ancient'] else []) + \
          (['selection'] if case['gamma'] else ['neutral'])
    rec.case(case, (c < 0.8 or c > 1.25) and f['max_pops'] >= 2, lab)
    with dadi_call('whole model'):
        a = P.run_native(prog, gamma=case['gamma'], h=case['h'])
        b = P.run_native(prog, rescale=c, gamma=case['gamma'], h=case['h'])
    m = ~np.ma.getmaskarray(a)
    require_close(np.asarray(np.ma.getdata(b), float)[m], np.asarray(np.ma.getdata(a), float)[m], 1e-9,
                  'whole model [%s] re-expressed relative to a reference size %.4g times larger' % (' '.join(lab), c), rec, key='whole-model rescaling')


# ------------------------------------------------------------------------------------------------ X chromosome
@st.composite
def x_case(draw):
    L = draw(st.integers(8, 40))
    nu = draw(G.loguniform(0.05, 20.0))
    # phi_1D_X has none of phi_1D's overflow guards: the scaled selection gamma*nu stays where exp() of it is representable
    geff = draw(st.one_of(st.just(0.0), st.floats(-40.0, 40.0)))
    return dict(L=L, nu=nu, gamma=geff / nu, h=draw(st.sampled_from([0.5, 0.5, 0.1, 0.9, 0.3])),
                beta=draw(st.sampled_from([1.0, 0.4, 2.5])), alpha=draw(st.sampled_from([1.0, 0.5, 3.0])), theta1=draw(st.floats(0.0, 5.0)),
                theta2=draw(st.floats(0.0, 5.0)), a=draw(st.floats(0.0, 3.0)), b=draw(st.floats(0.0, 3.0)), steps=draw(st.floats(0.5, 6.0)),
                c=draw(G.loguniform(0.05, 20.0)), seed=draw(st.integers(0, 2 ** 31 - 1)), from_eq=draw(st.booleans()))


@REG.relation('R4-x-chromosome', strategy=x_case, quick=(400, 8), thorough=(8000, 16))
def r4(case, rec):
    """The X-chromosome pair (phi_1D_X, one_pop_X; constants only): linear in (density, theta0), and unchanged when re-expressed
    relative to a reference size c times larger - equilibrium density included."""
    from dadi import PhiManip, Numerics
    L, nu, gamma, h, beta, alpha, c = case['L'], case['nu'], case['gamma'], case['h'], case['beta'], case['alpha'], case['c']
    xx = Numerics.default_grid(L)
    rs = np.random.RandomState(case['seed'])
    rec.case(case, gamma != 0 and (c < 0.8 or c > 1.25), ['gamma!=0' if gamma else 'gamma=0', 'h=0.5' if h == 0.5 else 'h!=0.5', 'from equilibrium' if case['from_eq'] else 'random density'])
    kw = dict(nu=nu, gamma=gamma, h=h, beta=beta, alpha=alpha)
    with dadi_call('phi_1D_X'):
        eq = PhiManip.phi_1D_X(xx, theta0=1.0, **kw)
        eq_c = PhiManip.phi_1D_X(xx, theta0=1.0 / c, nu=nu * c, gamma=gamma / c, h=h, beta=beta, alpha=alpha)
    require(np.isfinite(eq).all() and np.isfinite(eq_c).all(), 'phi_1D_X returned non-finite values')
    require_close(eq_c, eq, 1e-9, 'phi_1D_X re-expressed relative to a reference size %.4g times larger' % c, rec, key='X equilibrium rescaling')
    p1 = eq if case['from_eq'] else rs.gamma(1.0, 1.0, L) + 0.01
    p2 = rs.gamma(1.0, 1.0, L) + 0.01
    dt = Integration.timescale_factor / max(0.25 / nu * 4, abs(gamma) * 2)      # a few steps of the rule, whatever it binds on
    T = case['steps'] * dt
    a, b, t1, t2 = case['a'], case['b'], case['theta1'], case['theta2']
    with dadi_call('one_pop_X'):
        r1_ = Integration.one_pop_X(p1, xx, T, theta0=t1, **kw)
        r2_ = Integration.one_pop_X(p2, xx, T, theta0=t2, **kw)
        r12 = Integration.one_pop_X(a * p1 + b * p2, xx, T, theta0=a * t1 + b * t2, **kw)
        rc = Integration.one_pop_X(p1, xx, T * c, theta0=t1 / c, nu=nu * c, gamma=gamma / c, h=h, beta=beta, alpha=alpha)
    scale = max(np.abs(r1_).max(), np.abs(r2_).max())
    require_close(r12, a * r1_ + b * r2_, 1e-9, 'one_pop_X of a*phi1+b*phi2 with theta0 = a*theta1+b*theta2', rec, key='X linearity', atol=1e-12 * scale)
    require_close(rc, r1_, 1e-9, 'one_pop_X re-expressed relative to a reference size %.4g times larger' % c, rec, key='X rescaling', atol=1e-12 * scale)
