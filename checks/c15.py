"""C15 - library models are well-formed and reduce exactly to their nested special cases."""
import logging
import math
import warnings

import numpy as np
from hypothesis import strategies as st

import dadi
import dadi.DFE
from dadi.DFE import DemogSelModels
from harness import drivers as D
from harness.core import Registry, Violation, Reject, dadi_call, require, require_close
from checks import c15_table as TBL

warnings.filterwarnings('ignore')
logging.getLogger('Inference').setLevel(logging.ERROR)

NS = {'D1': dadi.Demographics1D, 'D2': dadi.Demographics2D, 'D3': dadi.Demographics3D, 'SEL': DemogSelModels}


def discover():
    """every distinct function exposing __param_names__ with signature (params, ns, pts)"""
    import inspect
    out = {}
    seen = {}
    for key, mod in NS.items():
        for name, f in vars(mod).items():
            if not callable(f) or not hasattr(f, '__param_names__'):
                continue
            try:
                nargs = len(inspect.signature(f).parameters)
            except (TypeError, ValueError):
                continue
            if nargs != 3:
                continue            # *_mscore helpers take only params: they generate ms command lines, not spectra
            if id(f) in seen:
                continue
            seen[id(f)] = '%s.%s' % (key, name)
            out['%s.%s' % (key, name)] = f
    return out


MODELS = discover()
EDGE_MODELS = set()
for cx, sm, kind, mp in TBL.EDGES:
    EDGE_MODELS.add(cx)
    EDGE_MODELS.add(sm)

REG = Registry(
    'C15',
    rule=('domain: every function with __param_names__ and signature (params, ns, pts) in Demographics1D/2D/3D, PortikModels and '
          'DFE.DemogSelModels (%d distinct functions, enumerated at run time); parameters drawn by name (nu*, T*, m*, s/f, F, gamma*); '
          'R2 walks a hand-written nesting table (%d edges: zero migration, zero-length epoch, equal asymmetric rates, zero / equal '
          'selection, documented re-parameterisations, zero admixture); R3 label-swap equivariance for %d symmetric models. '
          'Non-trivial = a model with >= 3 parameters. Distinct by (model or edge, parameter vector) hash.'
          % (len(MODELS), len(TBL.EDGES), len(TBL.SWAPS))),
    assumptions=['the nesting table (checks/c15_table.py) is my reading of the docstrings; an edge that fails on the unchanged tree is '
                 'examined as a possible table error first',
                 'parameters are kept moderate (nu in [0.2,5], T in [0.02,0.25], m in [0.1,4]) so that a 3-population model costs '
                 '~1 s; nesting exactness does not depend on their magnitude',
                 'models not reached by any edge are listed in the evidence as uncovered by R2'])


def resolve(name):
    key, fn = name.split('.', 1)
    return getattr(NS[key], fn)


def dim_of(name, f):
    if name.startswith('D1.') or name in ('SEL.equil', 'SEL.two_epoch_sel', 'SEL.three_epoch_sel', 'SEL.growth_sel', 'SEL.bottlegrowth_1d_sel'):
        return 1
    if name.startswith('D3.') and f.__module__.endswith(('Demographics3D', 'portik_models_3d')):
        return 3
    if f.__module__.endswith('portik_models_3d') or name == 'D3.out_of_africa':
        return 3
    return 2


def draw_param(rs, pname):
    p = pname
    if p.startswith('nu'):
        return float(math.exp(rs.uniform(math.log(0.2), math.log(5.0))))
    if p.startswith('T'):
        return float(rs.uniform(0.02, 0.25))
    if p.startswith('m'):
        return float(rs.uniform(0.1, 4.0))
    if p in ('s', 'f'):
        return float(rs.uniform(0.1, 0.9))
    if p == 'F':
        return float(rs.uniform(0.1, 0.8))
    if p.startswith('gamma'):
        return float(rs.uniform(-8.0, 4.0))
    raise KeyError('no sampling rule for parameter %r' % p)


def draw_params(rs, f):
    return {p: draw_param(rs, p) for p in f.__param_names__}


def evaluate(name, f, pdict, ns, pts):
    params = [pdict[p] for p in f.__param_names__]
    with dadi_call('%s(%s)' % (name, ', '.join('%s=%.4g' % kv for kv in pdict.items())), model=name):
        return f(params, ns, pts)


@st.composite
def model_case(draw):
    name = draw(st.sampled_from(sorted(MODELS)))
    return dict(model=name, seed=draw(st.integers(0, 2 ** 31 - 1)), n=draw(st.integers(2, 4)), pts=draw(st.integers(14, 20)))


def enum_models(tier, shard, nshards, seed):
    names = sorted(MODELS)
    reps = 2 if tier == 'quick' else 12
    k = 0
    for r in range(reps):
        for nm in names:
            if k % nshards == shard:
                yield dict(model=nm, seed=(seed + 7919 * k) % (2 ** 31), n=2 + (k % 3), pts=24 + (k % 5))
            k += 1


@REG.relation('R1-well-formed', enum=enum_models, quick=(len(MODELS), 16), thorough=(12 * len(MODELS), 16))
def r1(case, rec):
    """Every model accepts exactly len(__param_names__) parameters, and returns a finite, non-negative spectrum of the requested
    sample sizes tagged for extrapolation."""
    name = case['model']
    f = MODELS[name]
    rs = np.random.RandomState(case['seed'])
    dim = dim_of(name, f)
    n = case['n'] + (case['n'] % 2 if 'inbreeding' in name else 0)     # inbreeding models need whole diploid individuals
    ns = (n,) * dim
    pd = draw_params(rs, f)
    rec.case(case, len(pd) >= 3, ['dim=%d' % dim, name.split('.')[0]])
    with D.timescale(factor=4e-3):
        fs = evaluate(name, f, pd, ns, case['pts'])
        require(isinstance(fs, dadi.Spectrum), '%s returned %s' % (name, type(fs).__name__), model=name)
        require(fs.shape == tuple(n + 1 for n in ns), '%s returned shape %s for sample sizes %s' % (name, fs.shape, ns), model=name)
        data = np.asarray(np.ma.getdata(fs), float)
        m = np.ma.getmaskarray(fs)
        require(np.isfinite(data[~m]).all(), '%s returned non-finite entries' % name, model=name)
        require((data[~m] >= -5e-3 * np.abs(data[~m]).max()).all(), '%s returned a negative entry %r (max %r)' % (name, data[~m].min(), data[~m].max()), model=name)
        xx = dadi.Numerics.default_grid(case['pts'])
        require(getattr(fs, 'extrap_x', None) == xx[1], '%s: extrap_x = %r, first grid point is %r' % (name, getattr(fs, 'extrap_x', None), xx[1]), model=name)
        k = len(f.__param_names__)
        if k >= 1:
            params = [pd[p] for p in f.__param_names__]
            for bad in (params[:-1], params + [0.5]):
                try:
                    f(bad, ns, case['pts'])
                except (ValueError, IndexError, TypeError):
                    continue
                raise Violation('%s names %d parameters (%s) but accepted %d' % (name, k, f.__param_names__, len(bad)), model=name)


def edge_params(edge, rs):
    cx, sm, kind, mp = edge
    fc, fsm = resolve(cx), resolve(sm)
    sp = draw_params(rs, fsm)
    mp = dict(mp)
    tie = mp.pop('__tie__', None)
    if tie:
        sp[tie[0]] = sp[tie[1]]
    fixs = mp.pop('__simple__', None)      # parameters of the SIMPLE model held at given values (e.g. its migration rates at 0)
    if fixs:
        sp.update({k: float(v) for k, v in fixs.items()})
    cp = {}
    env = dict(sp)
    for p in fc.__param_names__:
        if p in mp:
            v = mp[p]
            cp[p] = float(eval(v, {}, env)) if isinstance(v, str) else float(v)
        elif p in sp:
            cp[p] = sp[p]
        else:
            raise KeyError('edge %s -> %s: complex parameter %r is neither mapped nor a parameter of the simple model' % (cx, sm, p))
    return fc, fsm, cp, sp


def enum_edges(tier, shard, nshards, seed):
    reps = 3 if tier == 'quick' else 12
    k = 0
    for r in range(reps):
        for i, e in enumerate(TBL.EDGES):
            if k % nshards == shard:
                yield dict(edge=i, cx=e[0], sm=e[1], kind=e[2], seed=(seed + 104729 * k) % (2 ** 31), n=2 + (k % 2), pts=14 + (k % 4))
            k += 1


@REG.relation('R2-nesting', enum=enum_edges, quick=(len(TBL.EDGES), 16), thorough=(10 * len(TBL.EDGES), 16))
def r2(case, rec):
    """At its nesting point every model equals its documented simpler model (rel 1e-10: the same primitive calls are made)."""
    e = TBL.EDGES[case['edge']]
    cx, sm, kind, _ = e
    rs = np.random.RandomState(case['seed'])
    fc, fsm, cp, sp = edge_params(e, rs)
    dim = dim_of(cx, fc)
    ns = (case['n'],) * dim
    rec.case(case, len(cp) >= 3, [kind, 'dim=%d' % dim])
    with D.timescale(factor=4e-3):
        a = evaluate(cx, fc, cp, ns, case['pts'])
        b = evaluate(sm, fsm, sp, ns, case['pts'])
    da, db = np.asarray(np.ma.getdata(a), float), np.asarray(np.ma.getdata(b), float)
    m = np.ma.getmaskarray(b)
    tol = 1e-10 if kind != 'f=0' else 1e-9
    require_close(da[~m], db[~m], tol, '%s at its nesting point (%s: %s) vs %s(%s)' % (
        cx, kind, ', '.join('%s=%.4g' % kv for kv in cp.items()), sm, ', '.join('%s=%.4g' % kv for kv in sp.items())), rec,
        key='nesting %s' % kind, model=cx, edge='%s->%s' % (cx, sm))


def enum_swaps(tier, shard, nshards, seed):
    reps = 3 if tier == 'quick' else 10
    k = 0
    for r in range(reps):
        for nm in sorted(TBL.SWAPS) + sorted(TBL.SWAPS3):
            if k % nshards == shard:
                yield dict(model=nm, seed=(seed + 15485863 * k) % (2 ** 31), n1=2 + (k % 3), n2=3 + ((k // 3) % 2), n3=2 + ((k // 2) % 2), pts=16)
            k += 1


@REG.relation('R3-swap-equivariance', enum=enum_swaps, quick=(len(TBL.SWAPS) + len(TBL.SWAPS3), 16), thorough=(6 * (len(TBL.SWAPS) + len(TBL.SWAPS3)), 16))
def r3(case, rec):
    """Symmetric two-population models: swapping the labels together with parameters and sample sizes transposes the spectrum, up
    to an operator-splitting error that shrinks with the time step."""
    name = case['model']
    f = resolve(name)
    rs = np.random.RandomState(case['seed'])
    pd = draw_params(rs, f)
    if name in TBL.SWAPS3:
        # axes[i] = the population of the original model that sits on axis i of the relabelled one; the relabelled model's
        # parameter p takes the value of the original's parameter perm[p]
        axes, perm = TBL.SWAPS3[name]
        ns = (case['n1'], case['n2'], case.get('n3', 2))
    else:
        axes, perm = (1, 0), TBL.SWAPS[name]
        ns = (case['n1'], case['n2'])
    sw = {}
    for p in f.__param_names__:
        src = perm.get(p, p)
        sw[p] = float(eval(src, {}, dict(pd)))
    rec.case(case, len(pd) >= 3, [name.split('.')[0]])
    inv = tuple(axes.index(i) for i in range(len(axes)))
    errs = []
    for tau in (4e-3, 1e-3, 2.5e-4):
        with D.timescale(factor=tau):
            a = np.asarray(np.ma.getdata(evaluate(name, f, pd, ns, case['pts'])), float)
            b = np.asarray(np.ma.getdata(evaluate(name, f, sw, tuple(ns[i] for i in axes), case['pts'])), float).transpose(inv)
        inner = np.ones(a.shape, bool)
        inner.flat[0] = inner.flat[-1] = False
        errs.append(np.abs(a[inner] - b[inner]).max() / np.abs(a[inner]).max())
    rec.err('swap error at smallest step', errs[-1])
    # the splitting error sits in the all-lost corner of the density and decays slowly (about x0.55 per fourfold step reduction)
    # (not monotonically at large steps, so the smallest step is compared with the largest)
    # A mislabelled parameter gives an O(1e-2..1) difference that does not depend on the step.
    # (for three populations the splitting error is not even monotone between the two coarser steps - 6.0e-5, 2.5e-4, 1.1e-4 was
    # measured for sim_split_no_mig - so the smallest step is compared with the larger of the two)
    # Differences below 1e-4 are splitting error whatever their trend (2.2e-6, 3.1e-6, 9.0e-6 was measured for sim_split_no_mig);
    # a mislabelled parameter shows at 1e-2 or more, at every step.
    ok = errs[-1] <= 1e-4 or (errs[2] <= 1.05 * max(errs[0], errs[1]) and errs[2] <= 1e-3)
    require(ok, '%s is not equivariant under swapping population labels: difference %.3e, %.3e, %.3e at time steps 4e-3, 1e-3, 2.5e-4 '
            '(does not vanish with the step); params %r' % (name, errs[0], errs[1], errs[2], pd), model=name)


# ------------------------------------------------------------------------------------------------ R4 selection overlay
OVERLAY = [('SEL.two_epoch_sel', 'D1.two_epoch'), ('SEL.three_epoch_sel', 'D1.three_epoch'), ('SEL.growth_sel', 'D1.growth'),
           ('SEL.bottlegrowth_1d_sel', 'D1.bottlegrowth_1d'),
           ('SEL.IM_pre_sel', 'D2.IM_pre'), ('SEL.IM_sel', 'D2.IM'), ('SEL.split_mig_sel', 'D2.split_mig'), ('SEL.split_asym_mig_sel', 'D2.split_asym_mig'),
           ('SEL.split_delay_mig_sel', 'D2.split_delay_mig'), ('SEL.bottlegrowth_2d_sel', 'D2.bottlegrowth_2d'),
           ('SEL.bottlegrowth_split_sel', 'D2.bottlegrowth_split'), ('SEL.bottlegrowth_split_mig_sel', 'D2.bottlegrowth_split_mig')]


class selection_overlay:
    """While active, every phi_1D / one_pop call made by library code carries gamma=g1 and every two_pops call gamma1=g1,
    gamma2=g2: the neutral library model then computes 'the same demography with selection g1 in population 1 and the ancestor and
    g2 in population 2', which is what its *_sel counterpart documents."""
    def __init__(self, g1, g2):
        self.g1, self.g2 = g1, g2

    def __enter__(self):
        from dadi import Integration, PhiManip
        self.saved = (PhiManip.phi_1D, Integration.one_pop, Integration.two_pops)
        p1, o1, t2 = self.saved
        g1, g2 = self.g1, self.g2
        PhiManip.phi_1D = lambda xx, *a, **k: p1(xx, *a, **dict(k, gamma=g1))
        Integration.one_pop = lambda phi, xx, T, *a, **k: o1(phi, xx, T, *a, **dict(k, gamma=g1))
        Integration.two_pops = lambda phi, xx, T, *a, **k: t2(phi, xx, T, *a, **dict(k, gamma1=g1, gamma2=g2))
        return self

    def __exit__(self, *exc):
        from dadi import Integration, PhiManip
        PhiManip.phi_1D, Integration.one_pop, Integration.two_pops = self.saved


def enum_overlay(tier, shard, nshards, seed):
    reps = 8 if tier == 'quick' else 30
    k = 0
    for r in range(reps):
        for sel, neu in OVERLAY:
            if k % nshards == shard:
                yield dict(sel=sel, neutral=neu, seed=(seed + 32452843 * k) % (2 ** 31), n=2 + (k % 3), pts=14 + (k % 4))
            k += 1


@REG.relation('R4-selection-overlay', enum=enum_overlay, quick=(8 * len(OVERLAY), 16), thorough=(30 * len(OVERLAY), 16))
def r4(case, rec):
    """Each demography-plus-selection model equals its neutral counterpart with selection switched on in the primitives (gamma1 in
    population 1 and the ancestral population, gamma2 in population 2), for unequal coefficients - a differential oracle that
    isolates the selection arguments of every call the model makes."""
    fs_, fn_ = resolve(case['sel']), resolve(case['neutral'])
    rs = np.random.RandomState(case['seed'])
    pd = draw_params(rs, fs_)
    if 'gamma' in pd:
        g1 = g2 = pd['gamma']
    else:
        g1, g2 = pd['gamma1'], pd['gamma2']
    dim = dim_of(case['sel'], fs_)
    ns = (case['n'],) * dim
    rec.case(case, g1 != g2, [case['sel'], 'dim=%d' % dim])
    with D.timescale(factor=4e-3):
        a = evaluate(case['sel'], fs_, pd, ns, case['pts'])
        with selection_overlay(g1, g2):
            b = evaluate(case['neutral'] + ' with selection in the primitives', fn_, {p: pd[p] for p in fn_.__param_names__}, ns, case['pts'])
    da, db = np.asarray(np.ma.getdata(a), float), np.asarray(np.ma.getdata(b), float)
    m = np.ma.getmaskarray(b)
    require_close(da[~m], db[~m], 1e-10, '%s(%s) vs %s with gamma1=%.4g, gamma2=%.4g switched on in phi_1D / one_pop / two_pops'
                  % (case['sel'], ', '.join('%s=%.4g' % kv for kv in pd.items()), case['neutral'], g1, g2), rec, key='selection overlay', model=case['sel'])
