"""C17 - DFE integration is the documented quadrature of a schedule-independent cache."""
import logging
import math
import os
import signal
import warnings

import numpy as np
from hypothesis import strategies as st

import dadi
import dadi.DFE as DFE
from dadi.DFE import PDFs, Cache1D, Cache2D
from harness.core import Registry, Violation, Reject, dadi_call, require, require_close
from harness.refs import dfe_quad as Q

warnings.filterwarnings('ignore')

REG = Registry(
    'C17',
    rule=('caches built from synthetic closed-form selection models (so hundreds are affordable) over generated gamma grids '
          '(bounds, 5-30 points, additional positive gammas); pdfs exponential / gamma / lognormal / beta and bivariate lognormal '
          '(3/5 parameters, rho in (-1,1)) / independent gamma with generated parameters; theta; point masses at cached gammas and at uncached ones computed on demand (repeated calls on the same cache); worker counts 1-16 and '
          'split_jobs 1-6; faults = model raising on a chosen gamma, missing / duplicated / conflicting jobs. Non-trivial = at least '
          '8 gamma points and a pdf with >1% of its mass outside the grid, or a multi-process / split build, or a fault. Distinct by '
          'hash of the case.'),
    assumptions=['oracle: harness/refs/dfe_quad.py - trapezoid over the cached grid with tail, edge and corner masses from closed-form '
                 'cdfs (scipy.stats), compared within the tolerance the code itself requests from scipy.integrate (1e-3 relative, 1e-4 absolute)',
                 'process scheduling belongs to the OS: the harness varies worker count and job split, not interleavings'])


# --------------------------------------------------------------------------------------------- synthetic models
class Model1D:
    def __init__(self, seed, n, blind=False, fail_at=None, die=False):
        self.die, self.creator = die, os.getpid()
        rs = np.random.RandomState(seed)
        self.base = rs.uniform(0.5, 3.0, n + 1)
        self.rate = rs.uniform(0.05, 1.0, n + 1)
        self.blind = blind
        self.fail_at = fail_at
        self.__name__ = 'synthetic_1d'

    def __call__(self, params, ns, pts):
        g = params[-1]
        if self.fail_at is not None and g == self.fail_at:
            if self.die:
                if os.getpid() != self.creator:
                    os._exit(3)             # the worker process dies without a trace (as a segfault or the OOM killer would do)
                return dadi.Spectrum(self.base.copy())
            raise ValueError('synthetic failure at gamma=%r' % g)
        if self.blind:
            return dadi.Spectrum(self.base.copy())
        return dadi.Spectrum(self.base * np.exp(-self.rate * abs(g) ** 0.5) * (1 + 0.2 * np.tanh(g)))


class Model2D:
    def __init__(self, seed, n1, n2, blind=False, fail_at=None, flavour=0.0, die=False):
        self.die, self.creator = die, os.getpid()
        rs = np.random.RandomState(seed)
        self.base = rs.uniform(0.5, 3.0, (n1 + 1, n2 + 1))
        self.r1 = rs.uniform(0.05, 1.0, (n1 + 1, n2 + 1))
        self.r2 = rs.uniform(0.05, 1.0, (n1 + 1, n2 + 1))
        self.blind = blind
        self.fail_at = fail_at
        self.flavour = flavour
        self.__name__ = 'synthetic_2d'

    def __call__(self, params, ns, pts):
        g1, g2 = params[-2], params[-1]
        if self.fail_at is not None and (g1, g2) == tuple(self.fail_at):
            if self.die:
                if os.getpid() != self.creator:
                    os._exit(3)
                return dadi.Spectrum(self.base.copy())
            raise ValueError('synthetic failure at gammas=%r' % ((g1, g2),))
        if self.blind:
            return dadi.Spectrum(self.base.copy())
        return dadi.Spectrum(self.base * np.exp(-self.r1 * abs(g1) ** 0.5 - self.r2 * abs(g2) ** 0.5) * (1 + 0.2 * np.tanh(g1)) + self.flavour)


@st.composite
def grid_case(draw, max_pts=30):
    lo = math.exp(draw(st.floats(math.log(1e-4), math.log(0.2))))
    hi = math.exp(draw(st.floats(math.log(5.0), math.log(2000.0))))
    return dict(lo=lo, hi=hi, pts=draw(st.integers(5, max_pts)),
                add=sorted(set(draw(st.lists(st.sampled_from([0.5, 1.0, 5.0, 10.0]), max_size=2)))))


@st.composite
def pdf1_case(draw):
    name = draw(st.sampled_from(['exponential', 'gamma', 'lognormal', 'beta']))
    if name == 'exponential':
        params = [math.exp(draw(st.floats(math.log(0.05), math.log(500.0))))]
    elif name == 'gamma':
        params = [draw(st.floats(0.1, 5.0)), math.exp(draw(st.floats(math.log(0.05), math.log(500.0))))]
    elif name == 'lognormal':
        params = [draw(st.floats(-3.0, 7.0)), draw(st.floats(0.2, 3.0))]
    else:
        params = [draw(st.floats(0.3, 5.0)), draw(st.floats(0.3, 5.0))]
    return dict(name=name, params=params)


@st.composite
def pdf2_case(draw):
    name = draw(st.sampled_from(['biv_lognormal', 'biv_lognormal', 'biv_ind_gamma', 'narrow-asym', 'off-diagonal']))
    if name == 'off-diagonal':
        # one population's selection coefficients mostly beyond the lethal end of the cached range, the other's mostly below its
        # neutral end: mass in the off-diagonal corners (the grid is fitted to the pdf in c2d through want_lo / want_hi)
        lo, hi = math.exp(draw(st.floats(math.log(1e-3), math.log(0.2)))), math.exp(draw(st.floats(math.log(5.0), math.log(200.0))))
        # medians stay inside the cached range (see the rejection rule in r2); 10-45% of one marginal lies beyond the lethal end and
        # 7-45% of the other below the neutral end
        s1, s2 = draw(st.floats(0.8, 2.0)), draw(st.floats(0.8, 2.0))
        a = math.log(hi) - draw(st.floats(0.1, 1.2)) * s1
        b = math.log(lo) + draw(st.floats(0.1, 1.5)) * s2
        flip = draw(st.booleans())
        return dict(name='biv_lognormal', params=([b, a, s2, s1] if flip else [a, b, s1, s2]) + [draw(st.floats(-0.9, 0.5))],
                    want_lo=lo, want_hi_exact=hi)
    if name == 'narrow-asym':
        # concentrated lognormal with different marginals, far from the origin: its density is tiny (but not equal) at small gammas
        mu1 = draw(st.floats(2.0, 5.0))
        return dict(name='biv_lognormal', params=[mu1, mu1 + draw(st.floats(1.0, 3.0)), draw(st.floats(0.4, 1.0)), draw(st.floats(0.4, 1.0)),
                                                  draw(st.floats(-0.5, 0.5))], want_hi=math.exp(mu1 + 1.5))
    if name == 'biv_lognormal':
        rho = draw(st.floats(-0.95, 0.95))
        if draw(st.booleans()):
            params = [draw(st.floats(-2.0, 7.0)), draw(st.floats(0.3, 2.5)), rho]
        else:
            params = [draw(st.floats(-2.0, 7.0)), draw(st.floats(-2.0, 7.0)), draw(st.floats(0.3, 2.5)), draw(st.floats(0.3, 2.5)), rho]
    else:
        if draw(st.booleans()):
            params = [draw(st.floats(0.3, 4.0)), math.exp(draw(st.floats(math.log(0.1), math.log(300.0))))]
        else:
            params = [draw(st.floats(0.3, 4.0)), draw(st.floats(0.3, 4.0)), math.exp(draw(st.floats(math.log(0.1), math.log(300.0)))),
                      math.exp(draw(st.floats(math.log(0.1), math.log(300.0))))]
    return dict(name=name, params=params)


def dist2(pdf):
    return Q.BivLognormal(pdf['params']) if pdf['name'] == 'biv_lognormal' else Q.BivIndGamma(pdf['params'])


@st.composite
def c1d(draw):
    return dict(grid=draw(grid_case()), pdf=draw(pdf1_case()), seed=draw(st.integers(0, 2 ** 31 - 1)), n=draw(st.integers(3, 8)),
                theta=draw(st.floats(0.1, 1e4)), blind=draw(st.sampled_from([False, False, True])), exterior=draw(st.sampled_from([True, True, False])),
                ppos=draw(st.floats(0.0, 0.5)), ppos2=draw(st.floats(0.0, 0.4)), cpus=draw(st.sampled_from([1, 1, 1, 2, 3])),
                gnew=draw(st.floats(0.05, 30.0)), theta_first=draw(st.sampled_from([1.0, 0.37, 2.5, 1e3])))


def build_cache1d(case, model, cpus=None):
    g = case['grid']
    with dadi_call('Cache1D'):
        return Cache1D([0.7], [case['n']], model, [20], gamma_bounds=(g['lo'], g['hi']), gamma_pts=g['pts'],
                       additional_gammas=list(g['add']), cpus=cpus or case['cpus'])


def tol_for(scale):
    return dict(tol=2e-3, atol=5e-4 * scale)


@REG.relation('R1-cache1d-quadrature', strategy=c1d, quick=(400, 16), thorough=(8000, 16))
def r1(case, rec):
    """Cache1D.integrate / integrate_point_pos = theta x [trapezoid over the grid + neutral and lethal tail masses]; linear in theta;
    point masses mixed with their stated weights; a selection-blind model returns theta x S x total weight, total weight = 1."""
    model = Model1D(case['seed'], case['n'], blind=case['blind'])
    cache = build_cache1d(case, model)
    pdf, theta = case['pdf'], case['theta']
    sel = getattr(PDFs, pdf['name'])
    neg = np.asarray(cache.neg_gammas, float)
    gpos = -neg[::-1]
    S = np.array([np.asarray(np.ma.getdata(model([0.7, -g], None, None)), float) for g in gpos])
    neutral = np.asarray(np.ma.getdata(model([0.7, 0], None, None)), float)
    exp, W = Q.integrate_1d(gpos, S, neutral, pdf['name'], pdf['params'], theta, exterior=case['exterior'])
    outside = 1.0 - float(Q._uni(pdf['name'], pdf['params']).cdf(gpos[-1]) - Q._uni(pdf['name'], pdf['params']).cdf(gpos[0]))
    rec.case(case, case['grid']['pts'] >= 8 and outside > 0.01, [pdf['name'], 'blind' if case['blind'] else 'selected',
                                                                  'exterior' if case['exterior'] else 'interior-only', 'cpus=%d' % case['cpus']])
    # the cache holds exactly the model's spectra
    require_close(np.asarray(cache.spectra[:len(neg)], float)[::-1], S, 1e-13, 'cached spectra vs the model evaluated directly', rec, key='cache1d contents')
    require_close(np.asarray(np.ma.getdata(cache.neu_spec), float), neutral, 1e-13, 'cached neutral spectrum', rec, key='cache1d neutral')
    with dadi_call('Cache1D.integrate'):
        got = cache.integrate(pdf['params'], None, sel, theta, None, exterior_int=case['exterior'])
    scale = theta * np.abs(S).max()
    require_close(np.asarray(np.ma.getdata(got), float), exp, 1e-6, 'Cache1D.integrate vs independent quadrature', rec, key='integrate1d', atol=1e-7 * scale)
    with dadi_call('Cache1D.integrate'):
        got2 = cache.integrate(pdf['params'], None, sel, 2.5 * theta, None, exterior_int=case['exterior'])
    require_close(np.asarray(np.ma.getdata(got2), float), 2.5 * np.asarray(np.ma.getdata(got), float), 1e-12, 'Cache1D.integrate is linear in theta', rec, key='theta linearity 1d')
    if case['blind'] and case['exterior']:
        # trapezoid error of the pdf on a coarse log-spaced grid is the only deviation from one
        require_close(np.asarray(np.ma.getdata(got), float), theta * neutral * W, 1e-6, 'selection-blind cache: theta x S x total weight', rec, key='blind1d', atol=1e-7 * scale)
    # point masses of positive selection (cached additional gammas)
    add = case['grid']['add']
    if add and case['exterior']:
        gp = add[0]
        ppos = case['ppos']
        with dadi_call('Cache1D.integrate_point_pos'):
            pp = cache.integrate_point_pos(list(pdf['params']) + [ppos, gp], None, sel, theta, Npos=1)
        Spos = np.asarray(np.ma.getdata(model([0.7, gp], None, None)), float)
        exp_pp = (1 - ppos) * exp + ppos * theta * Spos
        require_close(np.asarray(np.ma.getdata(pp), float), exp_pp, 1e-6, 'integrate_point_pos: (1-ppos) x continuous part + ppos x theta x S(gamma_pos)',
                      rec, key='point_pos1d', atol=1e-7 * scale, finding='point-pos-theta')
        if len(add) >= 2:
            with dadi_call('Cache1D.integrate_point_pos(Npos=2)'):
                pp2 = cache.integrate_point_pos(list(pdf['params']) + [ppos, add[0], case['ppos2'], add[1]], None, sel, theta, Npos=2)
            S2 = np.asarray(np.ma.getdata(model([0.7, add[1]], None, None)), float)
            exp2 = (1 - ppos - case['ppos2']) * exp + ppos * theta * Spos + case['ppos2'] * theta * S2
            require_close(np.asarray(np.ma.getdata(pp2), float), exp2, 1e-6, 'integrate_point_pos with two point masses', rec, key='point_pos1d x2',
                          atol=1e-7 * scale, finding='point-pos-theta')
    # a point mass at a gamma the cache does not hold, computed on demand (demo_sel_func given): the first call, a second call with
    # another theta on the now-extended cache, and the spectrum the cache has stored
    gnew = case.get('gnew')
    if gnew is not None and gnew not in list(cache.gammas):
        Snew = np.asarray(np.ma.getdata(model([0.7, gnew], None, None)), float)
        unit = exp / theta
        ppos = case['ppos']
        for k, th in enumerate([case['theta_first'] * theta, theta, 2.5 * theta]):
            with dadi_call('Cache1D.integrate_point_pos(on-demand gamma)'):
                od = cache.integrate_point_pos(list(pdf['params']) + [ppos, gnew], None, sel, th, demo_sel_func=model, Npos=1,
                                               exterior_int=case['exterior'])
            require_close(np.asarray(np.ma.getdata(od), float), (1 - ppos) * th * unit + ppos * th * Snew, 1e-6,
                          'integrate_point_pos with a point mass computed on demand, call %d on this cache (theta=%g)' % (k + 1, th), rec,
                          key='point_pos1d on demand', atol=1e-7 * max(th / theta, 1.0) * scale)
        ii = list(cache.gammas).index(gnew)
        require_close(np.asarray(cache.spectra[ii], float), Snew, 1e-13, 'spectrum stored by the on-demand evaluation vs the model at theta=1', rec,
                      key='cache1d on-demand contents')
        rec.label('on-demand point mass')


@st.composite
def c2d(draw):
    pdf = draw(pdf2_case())
    grid = draw(grid_case(max_pts=12))
    if 'want_hi' in pdf:
        grid['hi'] = float(min(2000.0, max(grid['hi'], pdf.pop('want_hi'))))
    if 'want_lo' in pdf:
        grid['lo'], grid['hi'] = float(pdf.pop('want_lo')), float(pdf.pop('want_hi_exact'))
    return dict(grid=grid, pdf=pdf, seed=draw(st.integers(0, 2 ** 31 - 1)),
                n1=draw(st.integers(2, 4)), n2=draw(st.integers(2, 4)), theta=draw(st.floats(0.1, 1e4)),
                blind=draw(st.sampled_from([False, False, True])), exterior=draw(st.sampled_from([True, True, False])),
                ppos1=draw(st.floats(0.0, 0.5)), ppos2=draw(st.floats(0.0, 0.5)), rho=draw(st.floats(0.0, 1.0)),
                p2d=draw(st.floats(0.0, 1.0)))


def build_cache2d(case, model, cpus=1, split_jobs=1, this_job_id=0):
    g = case['grid']
    with dadi_call('Cache2D'):
        return Cache2D([0.7], [case['n1'], case['n2']], model, [20], gamma_bounds=(g['lo'], g['hi']), gamma_pts=g['pts'],
                       additional_gammas=list(g['add']), cpus=cpus, split_jobs=split_jobs, this_job_id=this_job_id)


@REG.relation('R2-cache2d-quadrature', strategy=c2d, quick=(160, 16), thorough=(3000, 16))
def r2(case, rec):
    """Cache2D.integrate = interior double trapezoid + 4 edges + corners with masses from the bivariate distribution; linear in theta;
    selection-blind model => theta x S x total weight (one, up to quadrature error); point masses with the stated quadrant weights."""
    model = Model2D(case['seed'], case['n1'], case['n2'], blind=case['blind'])
    cache = build_cache2d(case, model)
    pdf, theta = case['pdf'], case['theta']
    sel = getattr(PDFs, pdf['name'])
    neg = np.asarray(cache.neg_gammas, float)
    gpos = -neg[::-1]
    n = len(gpos)
    S = np.array([[np.asarray(np.ma.getdata(model([0.7, -g1, -g2], None, None)), float) for g2 in gpos] for g1 in gpos])
    d = dist2(pdf)
    exp, W, wbl = Q.integrate_2d(gpos, S, d, theta, exterior=case['exterior'], both_lethal=True)
    outside = 1 - (d.joint_cdf(gpos[-1], gpos[-1]) - d.joint_cdf(gpos[0], gpos[-1]) - d.joint_cdf(gpos[-1], gpos[0]) + d.joint_cdf(gpos[0], gpos[0]))
    # pdfs whose bulk lies far beyond the cached range are outside the reach of adaptive quadrature on a semi-infinite interval
    # (it can miss a narrow peak altogether); keep the median of each marginal within a factor 2 of the largest cached gamma
    if d.cdf1(2 * gpos[-1]) < 0.5 or d.cdf2(2 * gpos[-1]) < 0.5:
        raise Reject()
    rec.case(case, n >= 8 and outside > 0.01, [pdf['name'], 'nparams=%d' % len(pdf['params']), 'blind' if case['blind'] else 'selected',
                                               'exterior' if case['exterior'] else 'interior-only',
                                               'both-lethal>1%' if wbl > 0.01 else 'both-lethal<=1%'])
    require_close(np.asarray(cache.spectra[:n, :n], float)[::-1, ::-1], S, 1e-13, 'cached spectra vs the model evaluated directly', rec, key='cache2d contents')
    with dadi_call('Cache2D.integrate'):
        got = np.asarray(np.ma.getdata(cache.integrate(pdf['params'], None, sel, theta, None, exterior_int=case['exterior'])), float)
    scale = theta * np.abs(S).max()
    # the out-of-range masses come from adaptive quadrature of the pdf with requested tolerances epsabs=1e-4, epsrel=1e-3: the
    # allowance is twice the error those very quadratures make on this pdf and grid (measured against the exact cdf masses)
    qtol = 3e-4 + (2.0 * Q.quad_budget_2d(gpos, d, sel, pdf['params']) if case['exterior'] else 0.0)
    sig = {}
    if case['exterior'] and wbl > 1e-3:
        sig = dict(finding='both-lethal-corner')
        if rec.known(finding='both-lethal-corner'):
            # judge against the quadrature without that corner so every other term is still checked
            exp_nb, W_nb, _ = Q.integrate_2d(gpos, S, d, theta, exterior=True, both_lethal=False)
            require_close(got, exp_nb, 2e-3, 'Cache2D.integrate vs independent quadrature (both-lethal corner excluded)', rec, key='integrate2d', atol=qtol * scale)
            return
    require_close(got, exp, 2e-3, 'Cache2D.integrate vs independent quadrature', rec, key='integrate2d', atol=qtol * scale, **sig)
    with dadi_call('Cache2D.integrate'):
        got2 = np.asarray(np.ma.getdata(cache.integrate(pdf['params'], None, sel, 3.0 * theta, None, exterior_int=case['exterior'])), float)
    require_close(got2, 3.0 * got, 1e-12, 'Cache2D.integrate is linear in theta', rec, key='theta linearity 2d')
    if case['blind'] and case['exterior']:
        base = np.asarray(np.ma.getdata(model([0.7, -1.0, -1.0], None, None)), float)
        require_close(got, theta * base * W, 2e-3, 'selection-blind cache: theta x S x total weight', rec, key='blind2d', atol=qtol * scale, **sig)
    # point masses
    add = case['grid']['add']
    if add and case['exterior'] and pdf['name'] == 'biv_lognormal' and not sig:
        gp1, gp2 = add[0], add[-1]
        p1, p2, rho = case['ppos1'], case['ppos2'], case['rho']
        with dadi_call('Cache2D.integrate_point_pos'):
            pp = np.asarray(np.ma.getdata(cache.integrate_point_pos(list(pdf['params']) + [p1, gp1, p2, gp2], None, sel, theta, rho=rho)), float)
        Wm = d.pdf(gpos, gpos)
        w_pop2 = Q._trapz(Wm, gpos, axis=0)      # marginal density of coefficient 2 on the grid
        w_pop1 = Q._trapz(Wm, gpos, axis=1)
        Sp1 = np.array([np.asarray(np.ma.getdata(model([0.7, gp1, -g2], None, None)), float) for g2 in gpos])
        Sp2 = np.array([np.asarray(np.ma.getdata(model([0.7, -g1, gp2], None, None)), float) for g1 in gpos])
        pos_neg = Q._trapz(w_pop2[:, None, None] * Sp1, gpos, axis=0)
        neg_pos = Q._trapz(w_pop1[:, None, None] * Sp2, gpos, axis=0)
        pos_pos = np.asarray(np.ma.getdata(model([0.7, gp1, gp2], None, None)), float)
        ppp = p1 * p2 + rho * (math.sqrt(p1 * p2) - p1 * p2)
        ppn = (1 - rho) * p1 * (1 - p2)
        pnp = (1 - rho) * (1 - p1) * p2
        pnn = (1 - p1) * (1 - p2) + rho * (1 - math.sqrt(p1 * p2) - (1 - p1) * (1 - p2))
        require(abs(ppp + ppn + pnp + pnn - 1) < 1e-12, 'quadrant weights do not sum to one')
        exp_pp = theta * (ppp * pos_pos + ppn * pos_neg + pnp * neg_pos + pnn * exp / theta)
        require_close(pp, exp_pp, 2e-3, 'Cache2D.integrate_point_pos vs stated quadrant weights', rec, key='point_pos2d', atol=qtol * scale)
        if len(pdf['params']) == 3:
            with dadi_call('integrate_symmetric_point_pos'):
                sp = np.asarray(np.ma.getdata(cache.integrate_symmetric_point_pos(list(pdf['params']) + [p1, gp1], None, sel, theta)), float)
            with dadi_call('integrate_point_pos'):
                sp2 = np.asarray(np.ma.getdata(cache.integrate_point_pos(list(pdf['params']) + [p1, gp1, p1, gp1], None, sel, theta, rho=pdf['params'][-1])), float)
            require_close(sp, sp2, 1e-12, 'integrate_symmetric_point_pos = integrate_point_pos with equal point masses and rho from the pdf', rec, key='symmetric point')


@st.composite
def mix_case(draw):
    c = draw(c2d())
    c['pdf'] = dict(name='biv_lognormal', params=[draw(st.floats(-1.0, 6.0)), draw(st.floats(0.4, 2.0)), draw(st.floats(-0.9, 0.9))])
    c['exterior'] = True
    c['blind'] = False
    return c


@REG.relation('R3-mixtures', strategy=mix_case, quick=(60, 16), thorough=(1500, 16))
def r3(case, rec):
    """mixture of a 1-D (perfectly correlated) and a 2-D component with the stated weight p2d."""
    m2 = Model2D(case['seed'], case['n1'], case['n2'])

    class Diag:
        __name__ = 'diag'

        def __call__(self, params, ns, pts):
            return m2(list(params) + [params[-1]], ns, pts)
    cache2 = build_cache2d(case, m2)
    g = case['grid']
    with dadi_call('Cache1D'):
        cache1 = Cache1D([0.7], [case['n1'], case['n2']], Diag(), [20], gamma_bounds=(g['lo'], g['hi']), gamma_pts=g['pts'],
                         additional_gammas=list(g['add']), cpus=1)
    mu, sigma, rho = case['pdf']['params']
    p2d, theta = case['p2d'], case['theta']
    rec.case(case, 0 < p2d < 1, ['p2d', 'point-masses' if case['grid']['add'] else 'no-point-mass'])
    with dadi_call('DFE.mixture'):
        got = np.asarray(np.ma.getdata(DFE.mixture([mu, sigma, rho, p2d], None, cache1, cache2, PDFs.lognormal, PDFs.biv_lognormal, theta, None)), float)
    with dadi_call('integrate'):
        f1 = np.asarray(np.ma.getdata(cache1.integrate([mu, sigma], None, PDFs.lognormal, theta, None)), float)
        f2 = np.asarray(np.ma.getdata(cache2.integrate([mu, sigma, rho], None, PDFs.biv_lognormal, theta, None)), float)
    require_close(got, (1 - p2d) * f1 + p2d * f2, 1e-12, 'mixture = (1-p2d) x 1-D component + p2d x 2-D component', rec, key='mixture')
    # the same without the out-of-range masses (exterior_int=False must reach both components)
    with dadi_call('DFE.mixture(exterior_int=False)'):
        got_in = np.asarray(np.ma.getdata(DFE.mixture([mu, sigma, rho, p2d], None, cache1, cache2, PDFs.lognormal, PDFs.biv_lognormal, theta, None,
                                                      exterior_int=False)), float)
    with dadi_call('integrate(exterior_int=False)'):
        f1_in = np.asarray(np.ma.getdata(cache1.integrate([mu, sigma], None, PDFs.lognormal, theta, None, exterior_int=False)), float)
        f2_in = np.asarray(np.ma.getdata(cache2.integrate([mu, sigma, rho], None, PDFs.biv_lognormal, theta, None, exterior_int=False)), float)
    require_close(got_in, (1 - p2d) * f1_in + p2d * f2_in, 1e-12, 'mixture(exterior_int=False) = (1-p2d) x in-range 1-D + p2d x in-range 2-D', rec,
                  key='mixture interior')
    # and the 1-D component against the oracle
    gpos = -np.asarray(cache1.neg_gammas, float)[::-1]
    S = np.array([np.asarray(np.ma.getdata(m2([0.7, -x, -x], None, None)), float) for x in gpos])
    neutral = np.asarray(np.ma.getdata(m2([0.7, 0, 0], None, None)), float)
    e1, _ = Q.integrate_1d(gpos, S, neutral, 'lognormal', [mu, sigma], theta)
    require_close(f1, e1, 1e-6, '1-D component of the mixture vs independent quadrature', rec, key='mixture 1d', atol=1e-7 * theta * np.abs(S).max())
    # mixtures with point masses of positive selection (need a cached positive gamma)
    add = g['add']
    if add:
        from dadi.DFE import Cache2D_mod
        gp1, gp2 = add[0], add[-1]
        p1, p2 = case['ppos1'], case['ppos2']
        with dadi_call('mixture_symmetric_point_pos'):
            ms = np.asarray(np.ma.getdata(DFE.mixture_symmetric_point_pos([mu, sigma, rho, p1, gp1, p2d], None, cache1, cache2,
                                                                          PDFs.lognormal, PDFs.biv_lognormal, theta)), float)
        with dadi_call('components of mixture_symmetric_point_pos'):
            a1 = np.asarray(np.ma.getdata(cache1.integrate_point_pos([mu, sigma, p1, gp1], None, PDFs.lognormal, theta, Npos=1)), float)
            a2 = np.asarray(np.ma.getdata(cache2.integrate_point_pos([mu, sigma, rho, p1, gp1, p1, gp1], None, PDFs.biv_lognormal, theta, rho=rho)), float)
        require(np.isfinite(ms).all(), 'mixture_symmetric_point_pos returned non-finite entries')
        require_close(ms, (1 - p2d) * a1 + p2d * a2, 1e-12, 'mixture_symmetric_point_pos = (1-p2d) x 1-D with point mass + p2d x 2-D with equal point masses',
                      rec, key='mixture symmetric point')
        with dadi_call('mixture_point_pos'):
            mp_ = np.asarray(np.ma.getdata(Cache2D_mod.mixture_point_pos([mu, sigma, rho, p1, gp1, p2, gp2, p2d], None, cache1, cache2,
                                                                        PDFs.lognormal, PDFs.biv_lognormal, theta)), float)
        with dadi_call('components of mixture_point_pos'):
            b2 = np.asarray(np.ma.getdata(cache2.integrate_point_pos([mu, sigma, rho, p1, gp1, p2, gp2], None, PDFs.biv_lognormal, theta, rho=rho)), float)
        require_close(mp_, (1 - p2d) * a1 + p2d * b2, 1e-12, 'mixture_point_pos = (1-p2d) x 1-D with point mass + p2d x 2-D with the two point masses',
                      rec, key='mixture point')


@st.composite
def vourlaki_case(draw):
    g = draw(grid_case(max_pts=10))
    g['add'] = [draw(st.sampled_from([0.5, 1.0, 5.0, 10.0]))]
    return dict(grid=g, seed=draw(st.integers(0, 2 ** 31 - 1)), n1=draw(st.integers(2, 4)), n2=draw(st.integers(2, 4)),
                alpha=draw(st.floats(0.15, 3.0)), beta=math.exp(draw(st.floats(math.log(0.5), math.log(300.0)))),
                ppos_wild=draw(st.floats(0.0, 0.5)), pchange=draw(st.floats(0.0, 1.0)), pchange_pos=draw(st.floats(0.0, 1.0)),
                theta=draw(st.floats(0.1, 1e3)))


@REG.relation('R7-vourlaki-mixture', strategy=vourlaki_case, quick=(64, 16), thorough=(1200, 16))
def r7(case, rec):
    """Vourlaki_mixture = theta x the six stated components with their stated weights: equal negative (1-D cache), independent
    negative (2-D cache), positive in both, and positive in one population with the other integrated over the gamma DFE
    (trapezoid over the cached grid + the most neutral / most deleterious cached spectrum times the tail masses)."""
    import scipy.stats as ss
    m2 = Model2D(case['seed'], case['n1'], case['n2'])

    class Diag:
        __name__ = 'diag'

        def __call__(self, params, ns, pts):
            return m2(list(params) + [params[-1]], ns, pts)
    g = case['grid']
    gp = g['add'][0]
    cache2 = build_cache2d(case, m2)
    with dadi_call('Cache1D'):
        cache1 = Cache1D([0.7], [case['n1'], case['n2']], Diag(), [20], gamma_bounds=(g['lo'], g['hi']), gamma_pts=g['pts'],
                         additional_gammas=list(g['add']), cpus=1)
    a, b, theta = case['alpha'], case['beta'], case['theta']
    pw, pc, pcp = case['ppos_wild'], case['pchange'], case['pchange_pos']
    rec.case(case, pw > 0 and 0 < pc < 1 and 0 < pcp < 1, ['n1!=n2' if case['n1'] != case['n2'] else 'n1=n2'])
    with dadi_call('Vourlaki_mixture'):
        got = np.asarray(np.ma.getdata(DFE.Vourlaki_mixture([a, b, pw, gp, pc, pcp], None, cache1, cache2, theta, None)), float)
    gpos = -np.asarray(cache2.neg_gammas, float)[::-1]
    spec = lambda g1, g2: np.asarray(np.ma.getdata(m2([0.7, g1, g2], None, None)), float)
    S1 = np.array([spec(-x, -x) for x in gpos])
    m5, _ = Q.integrate_1d(gpos, S1, spec(0, 0), 'gamma', [a, b], 1.0)
    S2 = np.array([[spec(-x, -y) for y in gpos] for x in gpos])
    d = Q.BivIndGamma([a, b])
    m6, _, _ = Q.integrate_2d(gpos, S2, d, 1.0, exterior=True, both_lethal=True)
    dist = ss.gamma(a, scale=b)
    w = dist.pdf(gpos)
    w_neu, w_del = float(dist.cdf(gpos[0])), float(dist.sf(gpos[-1]))
    pos_neg = np.array([spec(gp, -y) for y in gpos])
    neg_pos = np.array([spec(-x, gp) for x in gpos])
    m4 = Q._trapz(w[:, None, None] * pos_neg, gpos, axis=0) + pos_neg[0] * w_neu + pos_neg[-1] * w_del
    m7 = Q._trapz(w[:, None, None] * neg_pos, gpos, axis=0) + neg_pos[0] * w_neu + neg_pos[-1] * w_del
    mpp = spec(gp, gp)
    exp = theta * (m5 * (1 - pw) * (1 - pc) + m6 * (1 - pw) * pc * (1 - pcp) + m7 * (1 - pw) * pc * pcp
                   + mpp * pw * (1 - pc) + mpp * pw * pc * pcp + m4 * pw * pc * (1 - pcp))
    scale = theta * np.abs(S2).max()
    budget = Q.quad_budget_2d(gpos, d, PDFs.biv_ind_gamma, [a, b])
    require_close(got, exp, 1e-6, 'Vourlaki_mixture vs its stated components and weights', rec, key='vourlaki',
                  atol=scale * (1e-6 + 2.0 * budget))


@st.composite
def sched_case(draw):
    return dict(grid=draw(grid_case(max_pts=7)), seed=draw(st.integers(0, 2 ** 31 - 1)), n1=draw(st.integers(2, 3)), n2=draw(st.integers(2, 3)),
                n=draw(st.integers(3, 6)), cpus=draw(st.sampled_from([2, 3, 5, 8, 16])), split=draw(st.integers(1, 6)),
                kind=draw(st.sampled_from(['1d', '2d', '2d-split', '2d-split-mp'])))


@REG.relation('R4-schedule-independence', strategy=sched_case, quick=(48, 16), thorough=(600, 16))
def r4(case, rec):
    """The cache holds the same spectra (bitwise) whether built by one process, by many, or by split jobs that are merged."""
    rec.case(case, True, [case['kind'], 'cpus=%d' % case['cpus'], 'split=%d' % case['split']])
    if case['kind'] == '1d':
        model = Model1D(case['seed'], case['n'])
        a = build_cache1d(case, model, cpus=1)
        b = build_cache1d(case, model, cpus=case['cpus'])
        require(np.array_equal(np.asarray(a.spectra), np.asarray(b.spectra)), 'Cache1D built with %d processes differs from the single-process cache' % case['cpus'])
        require(np.array_equal(a.gammas, b.gammas), 'gamma grids differ')
        return
    model = Model2D(case['seed'], case['n1'], case['n2'])
    a = build_cache2d(case, model, cpus=1)
    if case['kind'] == '2d':
        b = build_cache2d(case, model, cpus=case['cpus'])
    else:
        # with '-mp' the jobs alternate between the single-process and the multi-process builder, which must agree on which
        # gamma pairs belong to which job
        parts = [build_cache2d(case, model, cpus=(min(case['cpus'], 3) if (case['kind'].endswith('mp') and j % 2 == 0) else 1),
                               split_jobs=case['split'], this_job_id=j) for j in range(case['split'])]
        with dadi_call('Cache2D.merge'):
            b = Cache2D.merge(parts)
    require(np.asarray(b.spectra).shape == np.asarray(a.spectra).shape, 'merged / multi-process cache has shape %s, expected %s' % (np.asarray(b.spectra).shape, np.asarray(a.spectra).shape))
    require(np.array_equal(np.asarray(a.spectra, float), np.asarray(b.spectra, float)), 'Cache2D built as %s differs from the single-process cache' % case['kind'])


@st.composite
def fault_case(draw):
    return dict(grid=draw(grid_case(max_pts=6)), seed=draw(st.integers(0, 2 ** 31 - 1)), n1=2, n2=2, n=draw(st.integers(3, 5)),
                kind=draw(st.sampled_from(['raise-1d', 'raise-2d', 'die-1d', 'die-2d', 'missing', 'conflict', 'duplicate'])),
                cpus=draw(st.sampled_from([1, 2, 3])), idx=draw(st.integers(0, 10 ** 6)), split=draw(st.integers(2, 5)),
                subset_seed=draw(st.integers(0, 2 ** 31 - 1)))


@REG.relation('R5-faults', strategy=fault_case, quick=(64, 16), thorough=(800, 16))
def r5(case, rec):
    """A model raising on any gamma makes cache construction raise (any worker count); merging an incomplete set of jobs or a
    conflicting duplicate raises; exact duplicates are accepted."""
    rec.case(case, True, [case['kind'], 'cpus=%d' % case['cpus']])
    g = case['grid']
    gam = np.concatenate((-np.logspace(np.log10(g['hi']), np.log10(g['lo']), g['pts']), list(g['add'])))
    if case['kind'].startswith('raise') or case['kind'].startswith('die'):
        die = case['kind'].startswith('die')
        cpus = max(2, case['cpus']) if die else case['cpus']       # a worker can only die where there are worker processes
        if case['kind'].endswith('1d'):
            target = gam[case['idx'] % len(gam)]
            model = Model1D(case['seed'], case['n'], fail_at=target, die=die)
            build = lambda: Cache1D([0.7], [case['n']], model, [20], gamma_bounds=(g['lo'], g['hi']), gamma_pts=g['pts'],
                                    additional_gammas=list(g['add']), cpus=cpus)
        else:
            target = (gam[case['idx'] % len(gam)], gam[(case['idx'] // 7) % len(gam)])
            model = Model2D(case['seed'], 2, 2, fail_at=target, die=die)
            build = lambda: Cache2D([0.7], [2, 2], model, [20], gamma_bounds=(g['lo'], g['hi']), gamma_pts=g['pts'],
                                    additional_gammas=list(g['add']), cpus=cpus)
        import io, contextlib

        class _Hang(Exception):
            pass

        def _alarm(*a):
            raise _Hang()
        old = signal.signal(signal.SIGALRM, _alarm)
        signal.alarm(180)
        try:
            with contextlib.redirect_stderr(io.StringIO()):
                c = build()
        except _Hang:
            raise Violation('%s: cache construction with %d processes did not return within 180 s after a worker %s at gamma=%r'
                            % (case['kind'], cpus, 'died' if die else 'raised', target))
        except Exception:
            return
        finally:
            signal.alarm(0)
            signal.signal(signal.SIGALRM, old)
        raise Violation('%s: %s at gamma=%r but cache construction with %d process(es) completed silently'
                        % (case['kind'], 'a worker process died' if die else 'the model raised', target, cpus))
    model = Model2D(case['seed'], 2, 2)
    split = case['split']
    parts = [build_cache2d(case, model, cpus=1, split_jobs=split, this_job_id=j) for j in range(split)]
    rs = np.random.RandomState(case['subset_seed'])
    if case['kind'] == 'missing':
        keep = [j for j in range(split) if rs.rand() < 0.6]
        if len(keep) == split or not keep:
            keep = list(range(split - 1))
        rs.shuffle(keep)
        try:
            Cache2D.merge([parts[j] for j in keep])
        except ValueError:
            return
        except Exception as e:
            raise Violation('merging jobs %s of %d raised %s, not ValueError' % (keep, split, type(e).__name__))
        raise Violation('merging only jobs %s of %d was accepted as a complete cache' % (keep, split))
    if case['kind'] == 'duplicate':
        order = list(range(split)) + [int(rs.randint(split))]
        rs.shuffle(order)
        with dadi_call('Cache2D.merge with an exact duplicate job'):
            b = Cache2D.merge([parts[j] for j in order])
        a = build_cache2d(case, model, cpus=1)
        require(np.array_equal(np.asarray(a.spectra, float), np.asarray(b.spectra, float)), 'merge with an exact duplicate differs from the full cache')
        return
    # conflict: a job computed with a different model
    other = Model2D(case['seed'], 2, 2, flavour=0.37)
    j = int(rs.randint(split))
    bad = build_cache2d(case, other, cpus=1, split_jobs=split, this_job_id=j)
    order = list(range(split))
    lst = [parts[k] for k in order] + [bad]
    try:
        Cache2D.merge(lst)
    except ValueError:
        return
    except Exception as e:
        raise Violation('merging a conflicting duplicate raised %s, not ValueError' % type(e).__name__)
    raise Violation('a conflicting duplicate of job %d was merged silently' % j)


@st.composite
def pdf_case(draw):
    which = draw(st.sampled_from(['biv_lognormal', 'biv_ind_gamma']))
    nx, ny = draw(st.integers(1, 6)), draw(st.integers(1, 6))
    xs = [math.exp(draw(st.floats(math.log(1e-4), math.log(2e3)))) for _ in range(nx)]
    ys = [math.exp(draw(st.floats(math.log(1e-4), math.log(2e3)))) for _ in range(ny)]
    if which == 'biv_lognormal':
        rho = draw(st.floats(-0.99, 0.99))
        params = [draw(st.floats(-3, 7)), draw(st.floats(0.1, 3)), rho] if draw(st.booleans()) else \
            [draw(st.floats(-3, 7)), draw(st.floats(-3, 7)), draw(st.floats(0.1, 3)), draw(st.floats(0.1, 3)), rho]
    else:
        k = draw(st.sampled_from([2, 3, 4, 5]))
        a = lambda: draw(st.floats(0.05, 50.0))
        b = lambda: math.exp(draw(st.floats(math.log(0.01), math.log(1e3))))
        params = [a(), b()] if k in (2, 3) else [a(), a(), b(), b()]
        if k in (3, 5):
            params.append(draw(st.floats(-0.9, 0.9)))
    # the coordinates handed over as contiguous arrays, as strided views (every other element of a longer array), or reversed views
    return dict(which=which, xs=xs, ys=ys, params=params, scalar=draw(st.booleans()), layout=draw(st.sampled_from(['C', 'C', 'strided', 'reversed'])))


@REG.relation('R6-compiled-pdfs', strategy=pdf_case, quick=(3000, 8), thorough=(40000, 16))
def r6(case, rec):
    """Compiled bivariate densities equal their reference formulas (3/5- and 2/3/4/5-parameter forms, rho in (-1,1))."""
    xs, ys = np.array(case['xs']), np.array(case['ys'])
    rec.case(case, len(xs) > 1 or len(ys) > 1, [case['which'], 'nparams=%d' % len(case['params'])])
    f_c = getattr(PDFs, case['which'])
    f_py = getattr(PDFs, case['which'] + '_py')
    lay = case.get('layout', 'C')

    def view(a):
        if lay == 'strided':
            big = np.full(2 * len(a), -7.0)
            big[::2] = a
            return big[::2]
        if lay == 'reversed':
            return np.array(a[::-1])[::-1]
        return a
    rec.label('layout=' + lay)
    with dadi_call(case['which']):
        got = np.asarray(f_c(view(xs), view(ys), case['params']), float)
    exp = np.asarray(f_py(xs, ys, case['params']), float)
    # independent third opinion
    d = Q.BivLognormal(case['params']) if case['which'] == 'biv_lognormal' else Q.BivIndGamma(case['params'])
    mine = np.squeeze(d.pdf(xs, ys))
    require(got.shape == exp.shape, 'compiled pdf returns shape %s, reference %s' % (got.shape, exp.shape))
    ok = np.isfinite(exp) & (np.abs(exp) > 1e-200)     # below that the marginals themselves are subnormal
    if ok.any():
        rel = np.abs(got[ok] - exp[ok]) / np.abs(exp[ok])
        rec.err('compiled vs py', rel.max())
        require(rel.max() <= 1e-9, 'compiled %s differs from the reference formula by %.3e relative (params %r)' % (case['which'], rel.max(), case['params']))
        rel2 = np.abs(np.asarray(mine)[ok] - exp[ok]) / np.abs(exp[ok])
        require(rel2.max() <= 1e-8, 'reference formula differs from scipy-based formula by %.3e' % rel2.max())
