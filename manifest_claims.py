# executed by tools_manifest.py
claim('C07',
      text="Generated search: thousands of (k, node set, ordering, values) cases per run, each compared entry by entry with an exact rational Lagrange extrapolation; polynomial-coefficient cases compared with c0; engineered fallback entries on both sides of fail_mag; a real library model through make_extrap(_log)_func. Exploration is the right level: the domain is continuous and the oracle is exact, so any formula slip in one of the six extrapolators shows on nearly every case.",
      note="Trusted: fractions.Fraction arithmetic and my Lagrange weights; tolerance 1e-12*k*sum|w_i||y_i|. Entries within half a decade of fail_mag and log-extrapolations that under/overflow double range are not judged.",
      technique="property-based testing (Hypothesis) against an exact rational Lagrange oracle",
      design_ref="DESIGN.md 3/C07")
