# executed by tools_manifest.py
claim('C07',
      text="Generated search: thousands of (k, node set, ordering, values) cases per run, each compared entry by entry with an exact rational Lagrange extrapolation; polynomial-coefficient cases compared with c0; engineered fallback entries on both sides of fail_mag; a real library model through make_extrap(_log)_func. Exploration is the right level: the domain is continuous and the oracle is exact, so any formula slip in one of the six extrapolators shows on nearly every case.",
      note="Trusted: fractions.Fraction arithmetic and my Lagrange weights; tolerance 1e-12*k*sum|w_i||y_i|. Entries within half a decade of fail_mag and log-extrapolations that under/overflow double range are not judged.",
      technique="property-based testing (Hypothesis) against an exact rational Lagrange oracle",
      design_ref="DESIGN.md 3/C07")
claim('C08',
      text="Exhaustive comparison of the projection weights with exact rational hypergeometric probabilities for all 1<=m<=n<=40 (two evaluation orders, so the memo key is exercised), random triples up to n=200, and generated spectra of 1-4 dimensions with masks/labels/folding checked entry by entry and mask bit by mask bit against an independent implementation; plus conservation, two-stage, axis-order, neutral fixed point and refusal of upward projection.",
      note="Trusted: math.comb/Fraction. dadi's unfold() masks the two corners (constructor default); the folded relation models that. Spectra above 4 dimensions are not generated.",
      technique="exhaustive enumeration of (n,m,hits) for n<=40 plus property-based testing (Hypothesis) against an exact hypergeometric oracle",
      design_ref="DESIGN.md 3/C08")
claim('C09',
      text="Generated spectra of 1-5 dimensions with arbitrary masks are folded, mirrored, unfolded and misidentified and compared, values and mask bits, with explicit index-loop oracles; every binary, reflected and in-place operator is run against plain-numpy arithmetic with attribute checks, and mixed folded/unfolded arithmetic must raise.",
      note="Trusted: harness/refs/folding.py. fold()/unfold() results are built with mask_corners=True, so the absent/fixed corner bits are forced masked in the oracle. Likelihood evaluation is checked only when some entry is unmasked in both spectra.",
      technique="property-based testing (Hypothesis) against explicit index-loop oracles and algebraic laws",
      design_ref="DESIGN.md 3/C09")
claim('C10',
      text="Generated spectra of 2-6 dimensions with unequal sample sizes, labels, folding and masks; marginalize/filter_pops, reorder_pops, combine_pops/combine_two_pops/Misc.combine_pops and scramble_pop_ids compared entry by entry with explicit re-indexing oracles, plus totals, label placement, input immutability and the commutation laws with project and fold that hold mathematically.",
      note="Trusted: harness/refs/popindex.py. Marginalisation is compared on non-corner entries (dadi sums masked arrays, so masked corners are skipped). combine/scramble do not commute with projection of the merged axes mathematically, so only the laws that hold are asserted.",
      technique="property-based testing (Hypothesis) against explicit re-indexing oracles",
      design_ref="DESIGN.md 3/C10")
claim('C11',
      text="Generated model/data pairs (1-3 dimensions, integer, zero and non-integer data, independent masks, folded data) compared with an explicit lgamma loop for ll / ll_per_bin, a golden-section maximisation over the scale for ll_multinom, the closed-form optimal scaling, competitor models for the saturation property, and explicit formulas and mask rules for both residuals.",
      note="Trusted: math.lgamma, my golden-section search. Cases with no jointly unmasked entry or no data there are skipped (degenerate). Model entries are positive by construction.",
      technique="property-based testing (Hypothesis) against an explicit Poisson oracle and a brute-force 1-D maximisation",
      design_ref="DESIGN.md 3/C11")
claim('C14',
      text="Generated spectra (1-5 dimensions, singleton axes, values across the double range plus nan/inf, arbitrary masks, valid folded masks, labels with spaces, comments) are written and read back in plain and gzip form at precisions 16-20, through the pre-1.3 format and the generic array writer, and pickled at protocols 2-5; every value, mask bit, flag, label and comment is compared.",
      note="Trusted: the round trip is its own oracle; values must be bit-identical at precision>=17. Labels avoid double quotes/newlines (the format quotes labels); magnitudes are limited to 1e300 as the property states.",
      technique="property-based testing (Hypothesis) with a round-trip oracle",
      design_ref="DESIGN.md 3/C14")
claim('C02',
      text="Each of the 15 per-axis kernels, the 5 precomputed-coefficient kernels, the tridiagonal solver and the five public drivers (single step, constant and function-valued parameters) is compared entry by entry with an independent dense assembly of the flux-form scheme solved by LU, over generated grids (per-axis grids of different values), densities and the full parameter box with both delj settings; multi-step constant-vs-function agreement in 1-3 populations; an overflow-region relation for the delj switch.",
      note="Trusted: harness/refs/fd_scheme.py (written from the scheme, assembles the operator by applying the flux form to unit vectors) and numpy.linalg. Absorbing-corner coefficient taken from the code. With delj on, tolerance widens by 50*eps/min|u| (conditioning of the documented weight formula) and cases beyond 1e-4 are not judged. Square arrays only (one grid length for all axes, as the public API assumes). A worker crash inside a kernel is reported as a violation with the in-progress case.",
      technique="property-based differential testing (Hypothesis) of compiled kernels and drivers against a dense LU reference",
      design_ref="DESIGN.md 3/C02")
claim('C03',
      text="Exact metamorphic identities of the scheme checked to 1e-9 on generated models in 1-5 populations: linearity in (phi, theta0) with signed coefficients, proportionality to theta0 from an empty density, and invariance under re-expressing the model relative to another reference size (sizes and times times c, rates, selection and theta0 divided by c), for constant, constant-function and genuinely time-varying parameters, frozen/nomut flags and non-zero initial_t.",
      note="Measured agreement on the unchanged tree ~1e-13. Zero migration rates are passed as literal zeros (the frozen check compares with 0). Whole-model programs (R3 in DESIGN) are exercised by C16/C20's program generator; the phi_1D(nu!=1, gamma!=0) equilibrium is judged under C01.",
      technique="property-based metamorphic testing (Hypothesis): linearity and reference-size rescaling",
      design_ref="DESIGN.md 3/C03")
claim('C04',
      text="Conservation identities derived from the flux-form scheme checked on generated cases in 2-5 populations: frozen populations' marginals (single and joint) unchanged at interior frequencies; marginal of any subset of isolated populations equals integrating that marginal alone under three ways of synchronising the time steps; exact mass balance (before + influx - corner outflow) against a replay with the C02 dense reference; nothing appears for frozen/nomut populations from an empty start; every frozen-with-migration pair (80, constant and function-valued) must raise ValueError.",
      note="Trusted: harness/refs/fd_scheme.py for the corner outflow; dadi's own _compute_dt is used only to choose the duration so that the step sequence is known. Interior = every coordinate of the marginal strictly inside (0,1).",
      technique="property-based testing (Hypothesis) of conservation invariants plus exhaustive enumeration of frozen/migration pairs",
      design_ref="DESIGN.md 3/C04")
claim('C05',
      text="Every sampling path (semi-analytic 1-5-D, direct 1-4-D with het_ascertained, admix_props 2-4-D, inbreeding 1-3-D with ploidy 2-8) is compared entry by entry with an independent operator (Gauss-Legendre integration of binomial x hat basis, trapezoid x binomial, binomial at mixed frequencies, convolved beta-binomials), plus totals = trapezoid mass, sample-then-project = sample, marginalise before/after, linearity, rejection of non-stochastic admixture rows, F->0 and F=0 limits and grids overshooting [0,1] in both cache orders.",
      note="Trusted: harness/refs/sampling.py (numpy leggauss, math.comb, lgamma). One shared grid in all dimensions (the semi-analytic path requires it). Open finding C05-mixed-zero-F is excluded by construction and re-probed on every run.",
      technique="property-based differential testing (Hypothesis) against independent quadrature / convolution oracles",
      design_ref="DESIGN.md 3/C05")
claim('C06',
      text="All 6 constructors and all 14 in-place pulse functions are compared entry by entry with an explicit-loop deposition oracle on generated densities, grids and simplex vectors (interior, faces, vertices, sum exactly one, rational proportions landing on grid points); integrating the new / destination population out must return the other populations' joint density; proportion 0 is the identity; pulses return the modified input; sums above one (all functions, incl. 2-D) must raise; remove_pop / filter_pops / reorder_pops against explicit marginals and index permutation.",
      note="Trusted: harness/refs/admix.py. Tolerance 1e-10 + 40*eps*(max w/min w)/min dx: conditioning of the interpolation fraction. A vector is inside the simplex when the exact rational sum of its float entries is <= 1. One shared grid (as the library's own models use).",
      technique="property-based differential testing (Hypothesis) against an explicit-loop deposition oracle plus conservation invariants",
      design_ref="DESIGN.md 3/C06")
claim('C19',
      text="get_hess / get_grad on generated quadratic and linear functions (parameters positive, negative, zero and tiny, so central and one-sided stencils are all hit) must be exact to a round-off bound; FIM/GIM uncertainties, LRT adjustment, Wald and score statistics on generated affine Poisson models must equal closed forms from analytic derivatives within O(eps^2) (condition-number aware) and be invariant to bootstrap order; sum_chi2_ppf scalar/array agreement against scipy cdfs; generated call histories over different model functions sharing (p0, ns, pts) must reproduce their empty-cache values.",
      note="Trusted: the closed forms in checks/c19.py, scipy.stats.chi2. Information matrices with condition number above 300 are not judged. Log-scale cases keep log(p) > 0.4 so central stencils are used (one-sided stencils are only O(eps)). Models are affine (B0 + sum p_k B_k): a purely linear model is degenerate under multinom (scale confounded with theta).",
      technique="property-based testing (Hypothesis): exactness on polynomials, closed-form differential oracle, history sequences vs empty-cache reruns",
      design_ref="DESIGN.md 3/C19")
claim('C12',
      text="Each exposed optimiser (opt with BOBYQA / COBYLA / Nelder-Mead, optimize, optimize_log, both L-BFGS-B wrappers, fmin, Powell, SLSQP, grid search) is run on generated synthetic models (1-4 parameters) through a recording wrapper: first evaluation equals the start, no evaluation outside the closed box, fixed parameters untouched in every evaluation and in the result, free ones within bounds, reported optimum equals the likelihood re-evaluated at the returned point, opt never returns worse than the start, natural and log parameterisation; _project_params_up/down inverses; perturb_params within bounds (negative bounds included) without touching the caller's lists.",
      note="Trusted: the recorder and a re-evaluation with dadi's own ll/ll_multinom (decided under C11). For the log-parameter SciPy wrappers the start is kept a relative 1e-9 inside the bounds: exp(log(b)) can exceed b by one ulp, so a start exactly on a bound cannot satisfy both clauses. Small evaluation budgets; convergence quality is not judged.",
      technique="property-based testing (Hypothesis) with a recording model wrapper and invariants over the evaluation trace",
      design_ref="DESIGN.md 3/C12")
claim('C18',
      text="Genotype partitions are enumerated exhaustively for every even sequenced size 2..20 and allele count and compared (set equality, probabilities) with a brute-force enumeration at F=0, F->0 and random F; projection, heterozygote-miscall, no-call and enough-covered quantities are compared with independent enumerations/convolutions on generated coverage distributions over depths 0..80; whole corrected models in 1-3 populations must not gain sites in analytic, simulated and mixed regimes and must equal the plain projection at deep coverage.",
      note="Trusted: harness/refs/lowpass_enum.py (itertools enumeration, math.factorial, numpy.convolve). RNGs (LowPass.rng, numpy global) seeded from the case. The simulated regime is only checked for the inequality and non-negativity, not against an oracle (it is Monte Carlo).",
      technique="exhaustive enumeration of partitions plus property-based testing (Hypothesis) against brute-force enumeration oracles",
      design_ref="DESIGN.md 3/C18")
claim('C17',
      text="Caches built from generated synthetic selection models are integrated over generated 1-D and 2-D DFEs and compared with an independent quadrature whose tail, edge and corner masses come from closed-form cdfs; linearity in theta; point masses and mixtures with their stated weights; selection-blind models must return theta x S x total weight; caches built with 1-16 processes and with 1-6 split jobs (alternating single- and multi-process builders) must be bitwise equal to the single-process cache; models raising on a chosen gamma, missing job subsets and conflicting duplicates must be reported, exact duplicates accepted; compiled bivariate densities against the reference formulas and a scipy-based third implementation.",
      note="Trusted: harness/refs/dfe_quad.py (scipy.stats cdfs, multivariate normal cdf). 2-D tolerance: 2e-3 relative plus (3e-4 + 1e-2 x probability mass outside the cached grid) absolute - the code asks scipy.integrate for 1e-3. DFEs whose marginal median lies beyond twice the largest cached gamma are not judged (adaptive quadrature on a semi-infinite interval can miss their peak). OS scheduling is not controlled: worker count and job split are.",
      technique="property-based differential testing (Hypothesis) against closed-form-cdf quadrature; schedule variation (worker count / job split) with bitwise comparison; injected faults",
      design_ref="DESIGN.md 3/C17")
claim('C13',
      text="Synthetic genotype matrices (1-3 populations, missing calls, filtered / non-SNP / multi-allelic lines, ancestral-allele annotations of every kind, chromosome names with '_' and '.', unlisted samples, plain and gzip files) are emitted as VCF + popinfo and as SNP tables, parsed by dadi and compared with direct counting: per-SNP calls, spectrum entries (polarised or folded), totals = usable projectable SNPs; chunks must partition the SNPs by genomic window and add up to the whole, bootstraps must be multiset sums of chunk spectra; subsampling must use exactly the requested individuals drawn from the called genotypes; S, pi, theta_W, theta_L, Tajima's D and Weir-Cockerham Fst are recomputed SNP by SNP from the genotype matrix.",
      note="Trusted: math.comb, formulas typed from Tajima (1989) and Weir & Cockerham (1984, with b = 0 as the docstring states). DP=0 / AD=0,0 only accompany ./. genotypes. Positions are unique (a repeated CHROM_POS overwrites the earlier SNP). The byte-level fuzzing supplement planned in DESIGN is not built.",
      technique="property-based differential testing (Hypothesis): generated genotype data written to real files and parsed, against direct counting",
      design_ref="DESIGN.md 3/C13")
