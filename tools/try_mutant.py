#!/usr/bin/env python3
"""Apply a one-off source mutation to /repo, run checks, revert.  usage: try_mutant.py FILE 'old' 'new' PROP [PROP...]
Never leaves /repo modified (git checkout -- FILE in a finally block)."""
import subprocess, sys, os
f, old, new, props = sys.argv[1], sys.argv[2], sys.argv[3], sys.argv[4:]
path = os.path.join('/repo', f)
s = open(path).read()
n = s.count(old)
if n < 1:
    print('pattern not found'); sys.exit(2)
try:
    open(path, 'w').write(s.replace(old, new, 1))
    for p in props:
        r = subprocess.run(['./run.py', p, '--no-evidence'], cwd='/verif', capture_output=True, text=True)
        lines = [l for l in r.stdout.splitlines() if 'violation in' in l or 'tier=' in l or 'HARNESS' in l]
        seen = set(); out = []
        for l in lines:
            k = l[:160]
            if k not in seen:
                seen.add(k); out.append(k)
        print('%s exit=%d' % (p, r.returncode)); print('\n'.join(out[:6]))
finally:
    subprocess.run(['git', '-C', '/repo', 'checkout', '--', f])
    # drop replays written while mutated
    for fn in os.listdir('/verif/replays'):
        pass
