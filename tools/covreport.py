#!/usr/bin/env python3
"""Line coverage of dadi's Python sources by the checks (exploration aid; finds blocks no check ever runs).
usage:  DADI_VERIF_LINECOV=/var/tmp/dadi-linecov ./run.py CXX --no-evidence   (for each property; slow: sys.settrace)
        tools/covreport.py /var/tmp/dadi-linecov [FILE_SUBSTR ...]    -> per file, the executable lines never hit, grouped in runs"""
import ast, glob, json, os, sys, collections
d = sys.argv[1]
subs = sys.argv[2:]
hit = collections.defaultdict(set)
for f in glob.glob(os.path.join(d, '*.json')):
    for fn, lines in json.load(open(f)).items():
        hit[os.path.realpath(fn)].update(lines)
for fn in sorted(hit):
    if subs and not any(s in fn for s in subs):
        continue
    src = open(fn).read()
    tree = ast.parse(src)
    stm = {}
    for node in ast.walk(tree):
        if isinstance(node, ast.stmt) and not isinstance(node, (ast.FunctionDef, ast.ClassDef, ast.Import, ast.ImportFrom, ast.Global)):
            if isinstance(node, ast.Expr) and isinstance(getattr(node, 'value', None), ast.Constant) and isinstance(node.value.value, str):
                continue
            stm[node.lineno] = node
    # map each line to its enclosing function
    func_of = {}
    for node in ast.walk(tree):
        if isinstance(node, (ast.FunctionDef, ast.AsyncFunctionDef)):
            for l in range(node.lineno, node.end_lineno + 1):
                func_of.setdefault(l, node.name) if False else func_of.__setitem__(l, node.name)
    miss = sorted(l for l in stm if l not in hit[fn])
    print('== %s: %d/%d statements hit' % (fn.split('/dadi/')[-1], len(stm) - len(miss), len(stm)))
    byfunc = collections.defaultdict(list)
    for l in miss:
        byfunc[func_of.get(l, '<module>')].append(l)
    for fu, ls in sorted(byfunc.items(), key=lambda kv: kv[1][0]):
        print('   %-40s %s' % (fu, ' '.join(map(str, ls[:40])) + (' ...' if len(ls) > 40 else '')))
