#!/usr/bin/env python3
"""Function-level coverage of dadi's Python sources by the checks (crude: which functions were ever called).
usage: run through run.py's environment:  ./run.py --help is not needed; call as
   PYTHONPATH=/verif:/repo:/verif/harness/site DADI_VERIF_EXT_DIR=... /venv/bin/python tools/funcov.py C05 C08 ...
Prints, per dadi source file, the functions defined there that no check called."""
import ast, importlib, os, sys, collections
sys.path.insert(0, '/verif')
called = set()

def prof(frame, event, arg):
    if event == 'call':
        fn = frame.f_code.co_filename
        if '/dadi/' in fn:
            called.add((fn, frame.f_code.co_name, frame.f_code.co_firstlineno))

props = sys.argv[1:]
from harness import core
real_stdout = sys.stdout
for p in props:
    modname = 'checks.' + p.lower()
    mod = importlib.import_module(modname)
    for relname, rel in mod.REG.relations.items():
        n = min(60, rel.quick[0]) if hasattr(rel, 'quick') else 60
        sys.setprofile(prof)
        try:
            core.run_shard(modname, relname, 'quick', 0, 16, n, 1)
        finally:
            sys.setprofile(None)
            sys.stdout = real_stdout
import dadi
root = os.path.dirname(dadi.__file__)
files = sorted(set(f for f, _, _ in called))
want = [os.path.join(root, x) for x in ['Spectrum_mod.py', 'Numerics.py', 'Integration.py', 'PhiManip.py', 'Inference.py', 'Misc.py', 'Godambe.py',
                                         'NLopt_mod.py', 'Demes/Demes.py', 'Demes/__init__.py', 'Demes/DemesUtil.py', 'LowPass/LowPass.py',
                                         'DFE/Cache1D_mod.py', 'DFE/Cache2D_mod.py', 'DFE/PDFs.py', 'DFE/Vourlaki2022.py', 'DFE/DemogSelModels.py',
                                         'Demographics1D.py', 'Demographics2D.py', 'Demographics3D.py']]
names_called = collections.defaultdict(set)
for f, name, line in called:
    names_called[os.path.realpath(f)].add((name, line))
for f in want:
    if not os.path.exists(f):
        continue
    tree = ast.parse(open(f).read())
    defs = []
    for node in ast.walk(tree):
        if isinstance(node, (ast.FunctionDef, ast.AsyncFunctionDef)):
            defs.append((node.name, node.lineno))
    got = names_called.get(os.path.realpath(f), set())
    gotnames = {n for n, _ in got}
    miss = sorted(set(n for n, l in defs if n not in gotnames))
    print('%s: %d/%d functions called; never called: %s' % (os.path.relpath(f, root), len(set(n for n, _ in defs)) - len(miss), len(set(n for n, _ in defs)), ', '.join(miss)))
