#!/bin/bash
# usage: all_seeds.sh  -- run every stored seeded change against the check of its property (and report misses)
cd /verif
for d in seeded/*/; do
  n=$(basename $d)
  p=$(python3 -c "import json;print(json.load(open('seeded/$n/meta.json'))['breaks_property'])")
  tools/run_seed.sh $n $p 2>&1 | cut -c1-160
done
