#!/bin/bash
# usage: harvest.sh NAME PROP  -- verify a seeded change left in /tmp/wt-NAME and store it under /verif/seeded/NAME
# confirms: demo fails with the change, passes without it, existing suite passes with it.
set -u
NAME=$1; PROP=$2
WT=/tmp/wt-$NAME
OUT=/verif/seeded/$NAME
mkdir -p $OUT
cd $WT || exit 2
git diff > $OUT/patch.diff
[ -s $OUT/patch.diff ] || { echo "no diff in $WT"; exit 2; }
cp demo_break.py $OUT/demo_break.py
TOUCH_C=$(grep -c '^+++ b/.*\.c$' $OUT/patch.diff)
run_demo() { PYTHONPATH=$WT timeout 1200 /venv/bin/python demo_break.py > /tmp/harvest_demo_$NAME.log 2>&1; echo $?; }
[ "$TOUCH_C" != "0" ] && ./rebuild_ext.sh >/dev/null 2>&1
CHANGED=$(run_demo)
git apply -R $OUT/patch.diff || { echo "cannot reverse patch"; exit 2; }
[ "$TOUCH_C" != "0" ] && ./rebuild_ext.sh >/dev/null 2>&1
CLEAN=$(run_demo)
git apply $OUT/patch.diff
[ "$TOUCH_C" != "0" ] && ./rebuild_ext.sh >/dev/null 2>&1
PYTHONPATH=$WT timeout 3000 /venv/bin/python -m pytest -q -p no:cacheprovider --timeout=900 -n 6 --dist loadfile tests > /tmp/harvest_suite_$NAME.log 2>&1
SUITE=$(tail -1 /tmp/harvest_suite_$NAME.log)
echo "demo(changed)=$CHANGED demo(unchanged)=$CLEAN suite: $SUITE"
python3 - <<PY
import json
json.dump(dict(name="$NAME", breaks_property="$PROP", demo_exit_with_change=int("$CHANGED"), demo_exit_without_change=int("$CLEAN"),
               suite_with_change="""$SUITE""".strip(), touches_c=bool(int("$TOUCH_C")),
               what_i_ran=["cd $WT && PYTHONPATH=$WT /venv/bin/python demo_break.py (with the change)",
                           "git apply -R patch.diff; same demo (without the change)",
                           "PYTHONPATH=$WT /venv/bin/python -m pytest -q -p no:cacheprovider -n 6 --dist loadfile tests (with the change)"]),
          open("$OUT/meta.json","w"), indent=1)
PY
