#!/bin/bash
# usage: seed_multi.sh NAME PROP SEED...  -- apply seeded change, run PROP at several VERIF_SEED values, always revert
NAME=$1; PROP=$2; shift; shift
git -C /repo diff --quiet || { echo "/repo not clean"; exit 2; }
git -C /repo apply /verif/seeded/$NAME/patch.diff || exit 2
touch /tmp/.seedstamp; trap 'git -C /repo checkout -- . ; find /verif/replays -type f -newer /tmp/.seedstamp -delete' EXIT
for s in "$@"; do
  echo "$NAME vs $PROP seed=$s: $(VERIF_SEED=$s /verif/run.py $PROP --no-evidence $EXTRA 2>&1 | grep -c '^VIOLATION') violation lines"
done
