#!/usr/bin/env python3
"""usage: mkprompt.py CXX [NAME] -> tools/prompt_NAME.txt from the template and the property text (nothing else from /verif)."""
import json, sys
pid = sys.argv[1]
name = sys.argv[2] if len(sys.argv) > 2 else pid
props = {json.loads(l)['id']: json.loads(l) for l in open('/verif/properties.jsonl')}
p = props[pid]
t = open('/verif/tools/agent_prompt.txt').read()
out = t.format(wt='/tmp/wt-%s' % name, name=name, title=p['title'], statement=p['statement'], quant=p['quantifier']['text'],
               files=', '.join(p['anchors']['files']))
extra = sys.argv[3] if len(sys.argv) > 3 else ''
if extra:
    out += '\n\nAdditional steer: ' + extra + '\n'
open('/verif/tools/prompt_%s.txt' % name, 'w').write(out)
print('wrote prompt_%s.txt' % name)
