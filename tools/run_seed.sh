#!/bin/bash
# usage: run_seed.sh NAME PROP [PROP...]  -- apply /verif/seeded/NAME/patch.diff to /repo, run the checks, always revert
NAME=$1; shift
P=/verif/seeded/$NAME/patch.diff
git -C /repo diff --quiet || { echo "/repo not clean"; exit 2; }
touch /tmp/.seedstamp; git -C /repo apply $P || exit 2
trap 'git -C /repo checkout -- . ; find /verif/replays -type f -newer /tmp/.seedstamp -delete' EXIT
cd /verif
for PROP in "$@"; do
  ./run.py $PROP --no-evidence > /tmp/seedrun_${NAME}_$PROP.log 2>&1
  echo "$NAME vs $PROP: exit=$? $(grep -c '^VIOLATION' /tmp/seedrun_${NAME}_$PROP.log) violation lines; $(grep 'violation in' /tmp/seedrun_${NAME}_$PROP.log | head -1 | cut -c1-220)"
done
