#!/bin/bash
# usage: setup_wt.sh NAME   -> scratch git worktree of /repo at /tmp/wt-NAME with built extensions and a rebuild helper
set -e
NAME=$1
WT=/tmp/wt-$NAME
git -C /repo worktree remove --force $WT 2>/dev/null || true
rm -rf $WT
git -C /repo worktree add -q --detach $WT HEAD
for f in dadi/integration_c.c dadi/tridiag_cython.c dadi/DFE/PDFs_cython.c; do cp /repo/$f $WT/$f; done
cp /repo/dadi/*.so $WT/dadi/; cp /repo/dadi/DFE/*.so $WT/dadi/DFE/
for d in Triallele TwoLocus; do cp /repo/dadi/$d/*.so $WT/dadi/$d/ 2>/dev/null || true; done
cat > $WT/rebuild_ext.sh <<'EOS'
#!/bin/bash
# Rebuild the three compiled extensions of this worktree in place after editing C sources (Cython itself is not installed;
# the pre-generated wrappers integration_c.c / tridiag_cython.c / DFE/PDFs_cython.c are used as they are).
set -e
cd "$(dirname "$0")"
PY=/venv/bin/python
INC="-I$($PY -c 'import sysconfig;print(sysconfig.get_paths()["include"])') -I$($PY -c 'import numpy;print(numpy.get_include())') -Idadi -Idadi/DFE"
SUF=$($PY -c 'import sysconfig;print(sysconfig.get_config_var("EXT_SUFFIX"))')
FL="-O2 -fPIC -shared -w -fno-strict-aliasing"
gcc $FL $INC dadi/integration_c.c dadi/integration1D.c dadi/integration2D.c dadi/integration3D.c dadi/integration4D.c dadi/integration5D.c dadi/integration_shared.c dadi/tridiag.c -o dadi/integration_c$SUF -lm &
gcc $FL $INC dadi/tridiag_cython.c dadi/tridiag.c -o dadi/tridiag_cython$SUF -lm &
gcc $FL $INC dadi/DFE/PDFs_cython.c -o dadi/DFE/PDFs_cython$SUF -lm &
wait
echo rebuilt
EOS
chmod +x $WT/rebuild_ext.sh
echo $WT
