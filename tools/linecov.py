#!/usr/bin/env python3
"""Line-level coverage of chosen dadi source files by the checks (crude; for finding never-exercised blocks).
usage: PYTHONPATH=/verif:/verif/.deps:/repo python tools/linecov.py FILE_SUBSTR[,FILE_SUBSTR] CXX [CXX...]"""
import ast, importlib, os, sys, collections
sys.path.insert(0, '/verif')
subs = sys.argv[1].split(',')
props = sys.argv[2:]
hit = collections.defaultdict(set)

def tracer(frame, event, arg):
    fn = frame.f_code.co_filename
    if '/dadi/' not in fn or not any(s in fn for s in subs):
        return None
    def local(frame, event, arg):
        if event == 'line':
            hit[fn].add(frame.f_lineno)
        return local
    hit[fn].add(frame.f_lineno)
    return local

from harness import core
real_stdout = sys.stdout
for p in props:
    modname = 'checks.' + p.lower()
    mod = importlib.import_module(modname)
    for relname, rel in mod.REG.relations.items():
        sys.settrace(tracer)
        try:
            core.run_shard(modname, relname, 'quick', 0, 16, 40, 1)
        finally:
            sys.settrace(None)
            sys.stdout = real_stdout
for fn, lines in hit.items():
    src = open(fn).read().split('\n')
    tree = ast.parse('\n'.join(src))
    # executable lines: statements' first lines
    stm = set()
    for node in ast.walk(tree):
        if isinstance(node, ast.stmt) and not isinstance(node, (ast.FunctionDef, ast.ClassDef, ast.Import, ast.ImportFrom)):
            if isinstance(node, ast.Expr) and isinstance(getattr(node, 'value', None), ast.Constant) and isinstance(node.value.value, str):
                continue
            stm.add(node.lineno)
    miss = sorted(stm - lines)
    print('== %s: %d/%d statements executed' % (fn.split('/dadi/')[-1], len(stm & lines), len(stm)))
    # group misses into runs
    runs = []
    for l in miss:
        if runs and l - runs[-1][1] <= 2:
            runs[-1][1] = l
        else:
            runs.append([l, l])
    for a, b in runs:
        if b - a >= 1:
            print('   %d-%d: %s' % (a, b, src[a - 1].strip()[:100]))
