#!/usr/bin/env python3
"""Regenerate MANIFEST.json from the per-property table below (keeps the file valid by construction)."""
import json, os
HERE = os.path.dirname(os.path.abspath(__file__))
BASE = "cd /repo && /venv/bin/python -m pytest -ra -q -p no:cacheprovider --timeout=900 --continue-on-collection-errors"

CHECKS = {}   # id -> dict(text, note, technique, design_ref)
NOT_APPLICABLE = {}

def claim(pid, text, note, technique, design_ref):
    CHECKS[pid] = dict(text=text, note=note, technique=technique, design_ref=design_ref)

exec(open(os.path.join(HERE, 'manifest_claims.py')).read())

props = [json.loads(l)['id'] for l in open(os.path.join(HERE, 'properties.jsonl'))]
checks = []
for pid in props:
    if pid not in CHECKS:
        continue
    c = CHECKS[pid]
    checks.append(dict(
        property_id=pid,
        quick_cmd="./run.py %s --tier quick" % pid,
        thorough_cmd="./run.py %s --tier thorough" % pid,
        evidence_file="/verif/evidence/%s.json" % pid,
        replay_cmd_template="./run.py %s --replay {path}" % pid,
        engine="hypothesis-relations",
        level_claimed=dict(category="exploration", text=c['text'], design_ref=c['design_ref']),
        level_note=c['note'],
        technique=c['technique']))
na = [dict(property_id=p, reason=NOT_APPLICABLE.get(p, 'check not built yet in this round; see DESIGN.md section 3 for the planned relations'))
      for p in props if p not in CHECKS]
m = dict(
    version=1,
    setup_cmd="(/venv/bin/python -c \"import hypothesis\" || /venv/bin/pip install --no-index --find-links /opt/veriftools/wheels hypothesis) && /venv/bin/pip install -q --no-index --find-links /opt/veriftools/wheels --target /verif/.deps mpmath",
    hooks=dict(guard="DADI_VERIF", enable="no source hooks are needed: every observation point is reachable from the public API; run.py sets DADI_VERIF=1 only for its own bookkeeping",
               baseline_off_cmd=BASE, source_commits=[], add_only=True),
    engines=[dict(name="hypothesis-relations", path="/verif/run.py", serves_properties=[c['property_id'] for c in checks],
                  kind_free_text="property-based testing: Hypothesis strategies (sharded over 16 processes, seeded from VERIF_SEED) and exhaustive enumerations of finite sub-domains, each against an independent oracle in harness/refs or in the check module; failures shrink to JSON replay files")],
    checks=checks,
    notes="Every check rebuilds dadi's compiled kernels from /repo's working tree (harness/build.py) and imports the live Python sources. known_findings.json lists open findings and repaired defects.",
    not_applicable=na)
json.dump(m, open(os.path.join(HERE, 'MANIFEST.json'), 'w'), indent=1)
print('claimed', [c['property_id'] for c in checks])
