#!/venv/bin/python
"""Single entry point of the dadi property checks.

  ./run.py C07 [--tier quick|thorough] [--replay replays/C07-R1-xxxx.json] [--only R1,R2]

exit 0: property held on everything explored (KNOWN-FINDING lines possible)
exit 1: violation; prints `VIOLATION property=<id> replay=<path>`
exit 2: harness error (never a verdict on the property)
"""
import argparse
import glob
import hashlib
import json
import os
import shutil
import sys
import time

VERIF = os.path.dirname(os.path.abspath(__file__))
REPO = os.environ.get('DADI_VERIF_REPO', '/repo')


def _reexec_if_needed():
    want = {'PYTHONHASHSEED': '0', 'OMP_NUM_THREADS': '1', 'OPENBLAS_NUM_THREADS': '1',
            'MKL_NUM_THREADS': '1', 'DADI_VERIF': '1'}
    if any(os.environ.get(k) != v for k, v in want.items()):
        os.environ.update(want)
        os.execv(sys.executable, [sys.executable] + sys.argv)


def _source_hash():
    sys.path.insert(0, VERIF)
    from harness import build
    h = hashlib.sha256()
    files = []
    for wrapper, kernels in build.EXTS.values():
        files += [wrapper] + kernels
    # every C / header / pyx file next to the extensions (PDFs_cython.c #includes PDFs.c, kernels include the shared headers)
    for d in ('dadi', os.path.join('dadi', 'DFE')):
        for pat in ('*.h', '*.c', '*.pyx'):
            files += glob.glob(os.path.join(REPO, d, pat))
    files += list(build.PYX_HASHES)
    for f in sorted(set(files)):
        p = f if os.path.isabs(f) else os.path.join(REPO, f)
        h.update(f.encode())
        if os.path.exists(p):
            with open(p, 'rb') as fh:
                h.update(fh.read())
    h.update(sys.version.encode())
    return h.hexdigest()[:20]


def prepare_extensions():
    """Compile (or reuse an identical-source build of) the extensions; return (dir, assumptions)."""
    from harness import build
    cache = '/var/tmp/dadi-verif-cache'
    os.makedirs(cache, exist_ok=True)
    key = _source_hash()
    final = os.path.join(cache, key)
    meta = os.path.join(final, 'assumptions.json')
    if not os.path.exists(meta):
        tmp = '%s.tmp%d' % (final, os.getpid())
        shutil.rmtree(tmp, ignore_errors=True)
        d, assumptions = build.build(tmp)
        with open(os.path.join(tmp, 'assumptions.json'), 'w') as f:
            json.dump(assumptions, f)
        try:
            os.rename(tmp, final)
        except OSError:
            shutil.rmtree(tmp, ignore_errors=True)  # someone else won the race
    # prune old builds (keep the 4 most recent)
    try:
        ds = sorted((os.path.join(cache, x) for x in os.listdir(cache)), key=os.path.getmtime)
        for x in ds[:-4]:
            if x != final and time.time() - os.path.getmtime(x) > 3600:
                shutil.rmtree(x, ignore_errors=True)
    except OSError:
        pass
    with open(meta) as f:
        assumptions = json.load(f)
    return final, assumptions


def _isolated_shard(t, pf, of):
    import pickle
    from harness import core
    try:
        out = ('ok', core.run_shard(*t, progress_file=pf))
    except BaseException as e:      # noqa
        out = ('err', '%s: %s' % (type(e).__name__, e))
    with open(of + '.tmp', 'wb') as f:
        pickle.dump(out, f)
    os.replace(of + '.tmp', of)


def main():
    # scratch space of this run (files written by C13/C14 cases, ...): pool workers leave through os._exit, so their atexit
    # handlers never run; the directory is owned and removed here instead
    import tempfile
    scratch = tempfile.mkdtemp(prefix='dadi-verif-run-', dir='/var/tmp')
    os.environ['DADI_VERIF_SCRATCH'] = scratch
    try:
        return _main()
    finally:
        shutil.rmtree(scratch, ignore_errors=True)


def _main():
    ap = argparse.ArgumentParser()
    ap.add_argument('prop')
    ap.add_argument('--tier', default=os.environ.get('VERIF_TIER', 'quick'), choices=['quick', 'thorough'])
    ap.add_argument('--replay')
    ap.add_argument('--only', default='')
    ap.add_argument('--scale', type=float, default=1.0, help='multiply example counts (exploration aid)')
    ap.add_argument('--jobs', type=int, default=int(os.environ.get('VERIF_JOBS', '16')))
    ap.add_argument('--no-evidence', action='store_true')
    args = ap.parse_args()
    prop = args.prop.upper()
    try:
        seed = int(os.environ.get('VERIF_SEED', '1'))
    except ValueError:
        seed = 1
    t0 = time.time()

    sys.path.insert(0, VERIF)
    deps = os.path.join(VERIF, '.deps')
    if os.path.isdir(deps):
        sys.path.insert(1, deps)
    if not os.path.isdir(os.path.join(deps, 'mpmath')):
        # setup_cmd installs mpmath into .deps; as a fallback the pure-python wheel can be imported in place (zipimport)
        for w in glob.glob('/opt/veriftools/wheels/mpmath-*.whl'):
            sys.path.append(w)
            os.environ['PYTHONPATH'] = os.pathsep.join([p for p in [os.environ.get('PYTHONPATH'), w] if p])
    try:
        extdir, assumptions = prepare_extensions()
    except Exception as e:
        print('HARNESS-ERROR: building extensions from %s failed: %s' % (REPO, e))
        return 2
    site = os.path.join(VERIF, 'harness', 'site')
    os.environ['DADI_VERIF_EXT_DIR'] = extdir
    pp = [site, VERIF] + ([deps] if os.path.isdir(deps) else [])
    if os.environ.get('PYTHONPATH'):
        pp.append(os.environ['PYTHONPATH'])
    os.environ['PYTHONPATH'] = os.pathsep.join(pp)
    sys.path.insert(0, site)
    import sitecustomize  # noqa  (installs the finder in this process)
    sitecustomize.install()

    import importlib
    import warnings
    warnings.filterwarnings('ignore')
    from harness import core
    modname = 'checks.%s' % prop.lower()
    try:
        mod = importlib.import_module(modname)
    except Exception as e:
        import traceback
        traceback.print_exc()
        print('HARNESS-ERROR: cannot import %s: %s' % (modname, e))
        return 2
    reg = mod.REG
    known = core.load_known()

    # ------------------------------------------------------------------ replay mode
    if args.replay:
        with open(args.replay) as f:
            r = json.load(f)
        fail = core.replay_case(modname, r['relation'], r['case'], probe_mode=True)
        if fail is None:
            print('replay passes: property=%s relation=%s' % (prop, r['relation']))
            return 0
        print('replay fails: %s' % fail['msg'])
        print('VIOLATION property=%s replay=%s' % (prop, args.replay))
        return 1

    # ------------------------------------------------------------------ generated search
    only = [x for x in args.only.split(',') if x]
    tasks = []
    for name, rel in reg.relations.items():
        if only and name not in only:
            continue
        n, shards = getattr(rel, args.tier)
        n = max(1, int(n * args.scale))
        shards = max(1, shards)
        per = max(1, -(-n // shards))
        for s in range(shards):
            tasks.append((modname, name, args.tier, s, shards, per, seed))

    import concurrent.futures as cf
    import multiprocessing as mp
    results = []
    errors = []
    progdir = None
    if getattr(mod, 'CRASHY', False):
        progdir = '/var/tmp/dadi-verif-prog-%d' % os.getpid()
        os.makedirs(progdir, exist_ok=True)
    try:
        if progdir:
            # one process per shard (not a pool): a worker killed by the code under test (segfault in a compiled kernel) loses only
            # its own shard, and the case it was running is read back from its progress file and reported as a violation
            import pickle
            import time as _time
            ctx = mp.get_context('fork')
            pending = list(enumerate(tasks))
            running = {}
            while pending or running:
                while pending and len(running) < max(1, args.jobs):
                    i, t = pending.pop(0)
                    pf = os.path.join(progdir, '%d.json' % i)
                    of = os.path.join(progdir, '%d.out' % i)
                    pr = ctx.Process(target=_isolated_shard, args=(t, pf, of))
                    pr.start()
                    running[i] = (pr, t, pf, of)
                for i in list(running):
                    pr, t, pf, of = running[i]
                    if pr.is_alive():
                        continue
                    pr.join()
                    del running[i]
                    if os.path.exists(of):
                        with open(of, 'rb') as f:
                            kind, val = pickle.load(f)
                        if kind == 'ok':
                            results.append(val)
                        else:
                            errors.append('%s shard %d: %s' % (t[1], t[3], val))
                        continue
                    case = None
                    if os.path.exists(pf):
                        try:
                            with open(pf) as f:
                                case = json.load(f)
                        except Exception:
                            case = None
                    if case is not None:
                        results.append(dict(rel=t[1], shard=t[3], rec=core.Recorder(prop, t[1]).dump(),
                                            failure=dict(case=case, msg='worker process died (exit code %s) while running this case' % pr.exitcode,
                                                         sig=dict(crash=True)), error=None, wall=0))
                    else:
                        errors.append('%s shard %d: worker exited with code %s before running a case' % (t[1], t[3], pr.exitcode))
                _time.sleep(0.02)
        else:
            with cf.ProcessPoolExecutor(max_workers=max(1, min(args.jobs, len(tasks))),
                                        mp_context=mp.get_context('fork')) as ex:
                futs = {}
                for i, t in enumerate(tasks):
                    futs[ex.submit(core.run_shard, *t, progress_file=None)] = t
                for fu in cf.as_completed(futs):
                    t = futs[fu]
                    try:
                        results.append(fu.result())
                    except Exception as e:
                        errors.append('%s shard %d: %s: %s' % (t[1], t[3], type(e).__name__, e))
    finally:
        if progdir:
            shutil.rmtree(progdir, ignore_errors=True)

    # ------------------------------------------------------------------ aggregate
    per_rel = {}
    nontrivial_all = set()
    evaluations = 0
    samples = []
    failures = []
    for r in sorted(results, key=lambda r: (r['rel'], r['shard'])):
        rec = r['rec']
        d = per_rel.setdefault(r['rel'], dict(evaluations=0, distinct_nontrivial=set(), labels={}, excluded_known={},
                                             rejected=0, max_err={}, wall_s=0.0, samples=[]))
        d['evaluations'] += rec['evaluations']
        d['distinct_nontrivial'].update(rec['nontrivial'])
        for k, v in rec['labels'].items():
            d['labels'][k] = d['labels'].get(k, 0) + v
        for k, v in rec['excluded'].items():
            d['excluded_known'][k] = d['excluded_known'].get(k, 0) + v
        for k, v in rec['max_err'].items():
            d['max_err'][k] = max(d['max_err'].get(k, 0.0), v)
        d['rejected'] += rec['rejected']
        for k, v in rec.get('harness_errors', {}).items():
            d.setdefault('harness_errors', {})
            d['harness_errors'][k] = d['harness_errors'].get(k, 0) + v
        for ex_ in rec.get('harness_examples', []):
            if len(d.setdefault('harness_examples', [])) < 2:
                d['harness_examples'].append(ex_)
        d['wall_s'] = max(d['wall_s'], r['wall'])
        if len(d['samples']) < 3:
            d['samples'] += rec['samples'][:3 - len(d['samples'])]
        evaluations += rec['evaluations']
        nontrivial_all.update((r['rel'], h) for h in rec['nontrivial'])
        if r['error']:
            errors.append('%s shard %d: %s' % (r['rel'], r['shard'], r['error']))
        if r['failure']:
            failures.append((r['rel'], r['failure']))
    for name, d in per_rel.items():
        for s in d['samples']:
            samples.append({'relation': name, 'case': s})
        d['distinct_nontrivial'] = len(d['distinct_nontrivial'])
        d['wall_s'] = round(d['wall_s'], 2)
        d['labels'] = dict(sorted(d['labels'].items()))

    # ------------------------------------------------------------------ known-finding probes
    out_lines = []
    for k in known:
        if k.get('property') != prop or k.get('status', 'open') != 'open':
            continue
        if only and k.get('relation') not in only:
            continue
        probe = k.get('probe')
        still = None
        if probe is not None and k.get('relation') in reg.relations:
            try:
                still = core.replay_case(modname, k['relation'], probe, probe_mode=True)
            except Exception as e:
                errors.append('probe of known finding %s: %s: %s' % (k['id'], type(e).__name__, e))
                continue
        if probe is None or still is not None:
            out_lines.append('KNOWN-FINDING: property=%s %s' % (prop, k['what']))
        else:
            out_lines.append('NOTE: listed finding %s no longer reproduces on this tree' % k['id'])

    # exceptions raised by the harness itself (oracle / generator), per case: tolerated when rare, fatal when systematic
    for name, d in per_rel.items():
        he = d.get('harness_errors', {})
        ntime = sum(v for k, v in he.items() if k.startswith('case exceeded'))
        if ntime:
            out_lines.append('NOTE: %s: %d case(s) did not return within the per-case time limit and were abandoned as inconclusive '
                             '(on the unchanged tree every case takes seconds)' % (name, ntime))
        nerr = sum(he.values()) - ntime
        if nerr:
            out_lines.append('NOTE: %s: %d case(s) skipped because the harness itself raised: %s' % (name, nerr, {k: v for k, v in he.items() if not k.startswith('case exceeded')}))
            if nerr > max(3, 0.05 * max(d['evaluations'] + nerr, 1)):
                errors.append('%s: %d harness exceptions (%s); first: %s' % (name, nerr, d['harness_errors'], d.get('harness_examples', [])[:1]))
    violations = []
    for relname, fail in failures:
        k = core.matches_known(prop, relname, fail.get('sig', {}), known)
        if k is not None:
            line = 'KNOWN-FINDING: property=%s %s' % (prop, k['what'])
            if line not in out_lines:
                out_lines.append(line)
            continue
        path = core.write_replay(prop, relname, fail, seed)
        violations.append((relname, fail, path))

    wall = time.time() - t0
    ev = dict(property_id=prop, tier=args.tier, seed=seed, level='exploration',
              coverage=dict(evaluations=evaluations, distinct_nontrivial=len(nontrivial_all),
                            rule=reg.rule, samples=samples[:12], relations=per_rel,
                            exhaustive=bool(getattr(mod, 'EXHAUSTIVE_NOTE', '')),
                            exhaustive_note=getattr(mod, 'EXHAUSTIVE_NOTE', ''),
                            known_findings_reported=[l for l in out_lines if l.startswith('KNOWN')]),
              assumptions=list(reg.assumptions) + assumptions +
              ['extensions rebuilt with gcc from %s kernel sources plus pre-generated Cython wrappers' % REPO],
              wall_s=round(wall, 2), violations=len(violations))
    if not ev['coverage']['exhaustive']:
        del ev['coverage']['exhaustive']
    if not args.no_evidence and not only and not errors:
        os.makedirs(os.path.join(VERIF, 'evidence'), exist_ok=True)
        with open(os.path.join(VERIF, 'evidence', '%s.json' % prop), 'w') as f:
            json.dump(ev, f, indent=1, sort_keys=True, default=str)

    for name, d in per_rel.items():
        print('  %-22s cases=%-7d nontrivial=%-6d excluded=%s wall=%.1fs maxerr=%s' % (
            name, d['evaluations'], d['distinct_nontrivial'], d['excluded_known'] or 0, d['wall_s'],
            {k: float('%.2g' % v) for k, v in d['max_err'].items()}))
    for l in out_lines:
        print(l)
    if errors:
        for e in errors:
            print('HARNESS-ERROR: %s' % e)
    for relname, fail, path in violations:
        print('  violation in %s: %s' % (relname, fail['msg']))
        print('VIOLATION property=%s replay=%s' % (prop, path))
    print('%s tier=%s seed=%d evaluations=%d nontrivial=%d violations=%d wall=%.1fs' % (
        prop, args.tier, seed, evaluations, len(nontrivial_all), len(violations), wall))
    if violations:
        return 1
    if errors:
        return 2
    return 0


if __name__ == '__main__':
    _reexec_if_needed()
    sys.exit(main())
